#!/bin/bash
# tools/round2.sh <Cxx> [extra checks...] : confirm and try the round-2 mutants of one property
ID=$1; shift
for d in /tmp/mut2/$ID/m*; do
  [ -d "$d" ] || continue
  m=$(basename $d)
  WTROOT=/tmp/wt2 MUTROOT=/tmp/mut2 /verif/tools/confirm_mutant.sh $ID $m | tail -1
  /verif/tools/try_mutant.sh $d quick $ID "$@" | tee -a /tmp/mut2/matrix.log | cut -c1-260
done
