#!/usr/bin/env python3
"""Copies the confirmed sub-agent mutants from /tmp/mut into /verif/seeded/<Cxx-mN>/ with a meta.json that records
which property they break, what they need to manifest, how they were confirmed and which checks catch them."""
import json, os, re, shutil, glob, sys
SRC = sys.argv[1] if len(sys.argv) > 1 else '/tmp/mut'
TAG = sys.argv[2] if len(sys.argv) > 2 else ''   # e.g. 'r2' for the second round
BASE = sys.argv[3] if len(sys.argv) > 3 else 'the pinned commit df1ae8b'
DST = '/verif/seeded'
matrix = {}
for log in sorted(glob.glob(os.path.join(SRC, 'matrix*.log'))):  # later files override earlier entries
    for ln in open(log):
        m = re.match(r'(DETECTED|MISSED|PATCH-FAILED) (\S+)(?: by (C\d+) \((\w+)\))?(.*)', ln.strip())
        if not m: continue
        st, d, chk, tier, rest = m.groups()
        key = os.path.relpath(d, SRC)
        matrix.setdefault(key, {})
        if chk:
            matrix[key][chk + ':' + tier] = {'result': st, 'detail': rest.strip(': ')[:300]}
os.makedirs(DST, exist_ok=True)
for d in sorted(glob.glob(os.path.join(SRC, 'C*', 'm*'))):
    if not os.path.isdir(d) or d.endswith('.bak'): continue
    prop, m = d.split('/')[-2], d.split('/')[-1]
    conf = os.path.join(d, 'confirm.txt')
    confirmed = os.path.exists(conf) and any(l.startswith('CONFIRMED ' + prop + '/' + m) for l in open(conf).read().splitlines())
    if not confirmed:
        print('skip (not confirmed):', d); continue
    out = os.path.join(DST, prop + '-' + (TAG + '-' if TAG else '') + m)
    os.makedirs(out, exist_ok=True)
    for f in os.listdir(d):
        if f.endswith('.diff') or f.endswith('_test.go') or f == 'notes.md' or f.endswith('.go'):
            shutil.copy(os.path.join(d, f), os.path.join(out, f))
    notes = open(os.path.join(d, 'notes.md')).read() if os.path.exists(os.path.join(d, 'notes.md')) else ''
    needs = ''
    mm = re.search(r'(?is)(what (?:it|is) need\w*[^\n]*\n.*?)(?:\n#|\n\*\*|\Z)', notes)
    if mm: needs = ' '.join(mm.group(1).split())[:900]
    NEUTRAL = {'C11-m1': 'neutralised by fix d3240a8: executeCompaction now returns (nil, err) when closing the output fails, the only remaining (metadata, err) combination is a failing Close of an INPUT reader, for which the installed output is complete',
               'C17-m2': 'neutralised by fix 295f567: PutBytes (through which Put goes) validates before anything is logged, so moving Put\'s own check behind the WAL append has no effect any more'}
    NEUTRAL_TAGGED = {('r9', 'C06', 'm1'): 'neutralised by fix 695c32f (found in the same round): NewSimpleDB now resolves the base path once, which also cleans it, so a flush path built without filepath.Join no longer differs from the cleaned one; the demonstration passes on the repaired tree with the patch applied'}
    meta = {
        'property': prop,
        'note': NEUTRAL_TAGGED.get((TAG, prop, m), NEUTRAL.get(prop + '-' + m, '') if not TAG else ''),
        'origin': 'independent sub-agent given only the property text and a scratch worktree of ' + BASE,
        'patch': 'patch.diff (against ' + BASE + ')' + ('; patch.ported.diff (hand-ported to the repaired tree, same mechanism)' if os.path.exists(os.path.join(d, 'patch.ported.diff')) else ''),
        'needs_to_manifest': needs or 'see notes.md',
        'confirmed_by': 'tools/confirm_mutant.sh %s %s : patch applies to its base, go build ok, full suite passes with the patch, demo fails with the patch and passes without it' % (prop, m),
        'checks_run': matrix.get(prop + '/' + m, {}),
    }
    json.dump(meta, open(os.path.join(out, 'meta.json'), 'w'), indent=1)
    print('imported', out, {k: v['result'] for k, v in meta['checks_run'].items()})
