#!/bin/bash
# tools/roundN.sh <round number> <Cxx> [extra checks...] : confirm and try the round-N mutants of one property
N=$1; ID=$2; shift 2
for d in /tmp/mut$N/$ID/m*; do
  [ -d "$d" ] || continue
  m=$(basename $d)
  WTROOT=/tmp/wt$N MUTROOT=/tmp/mut$N /verif/tools/confirm_mutant.sh $ID $m | tail -1
  /verif/tools/try_mutant.sh $d quick $ID "$@" | tee -a /tmp/mut$N/matrix.log | cut -c1-260
done
