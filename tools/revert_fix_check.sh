#!/bin/bash
# tools/revert_fix_check.sh : for every fix: commit, revert it on a scratch worktree and confirm that the check that
# found the defect fires again (DESIGN section 5(3)). Output: one line per fix in /tmp/mut/revert/result.log
set -u
mkdir -p /tmp/mut/revert
OUT=/tmp/mut/revert/result.log
: > $OUT
while read h checks; do
  d=/tmp/mut/revert/$h; mkdir -p $d
  git -C /repo diff $h $h~1 > $d/patch.diff
  echo "== revert $h ($(git -C /repo log --format=%s -1 $h | cut -c1-70))" >> $OUT
  /verif/tools/try_mutant.sh $d quick $checks 2>&1 | grep -E "DETECTED|MISSED|PATCH-FAILED" | cut -c1-300 >> $OUT
done <<'LIST'
0414151 C04
8558f74 C04
2cb90b9 C04
1fcb6d9 C04
053d9b9 C04
4b740bf C04
4be03cc C01 C06
695c32f C01 C06
2aa1b05 C12
823f9aa C03
7145276 C03
5b4e4d3 C08
5c70839 C15
e879ad3 C20
5a58e27 C11
b613c9a C11
d3240a8 C11
0b2de06 C01
635b3ce C01 C06
0e61de3 C01
295f567 C17
5f30f8c C02 C13
72ce66b C02
c6784f4 C10
63bc2af C10
LIST
echo done >> $OUT
