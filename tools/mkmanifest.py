#!/usr/bin/env python3
"""Generates /verif/MANIFEST.json from the table below (single source of truth for the interface)."""
import json, os, subprocess
ROOT = os.path.dirname(os.path.dirname(os.path.abspath(__file__)))

# id -> (category, technique, level text, level note, design ref, engine)
CHECKS = {
 "C16": ("exploration", "reference-model monitor (sorted map / sorted multiset) shadowing the real skip list and merge heap; exhaustive permutations <=7 keys + seeded random",
         "All 5 913 insertion orders of 1..7 keys are executed against the real skip list under two comparators and every probe / bound pair is compared with a sorted-slice model; beyond that seeded random orders up to 2 000 keys and seeded k-way merges are monitored; lookups are interleaved with the inserts (incl. a next-key lookup before every insert for all permutations), key sets that are prefixes of one shared buffer, queue inputs that end with a wrapped Done, inputs that hold only the empty key, block-wise disjoint inputs and three-way ties are included. Exhaustive for the small sub-space, sampled beyond; right level because the structures are pure in-memory code with no schedule or fault dimension.",
         "trusts Go's sort package and the 30-line model; comparators assumed consistent", "§3 C16", "E1"),
}
CHECKS.update({
 "C04": ("exploration", "reference-model monitor: list-of-surviving-records model shadowing writer programs, then sequential/skip, random-access and seek-next-from-every-offset read-back",
         "Seeded writer programs (incl. seek-back) x 4 compressions x buffer sizes x buffered/direct I/O are executed with the real writer and read back through every reader/access path (sequential ReadNext/SkipNext mixes through the buffered and the direct-I/O reader factory - also over files written by the buffered writer, whose size is no block multiple -, ReadNextAt, SeekNext); SeekNext is compared with the model at every byte offset of small files; slices returned by the sequential reader are kept uncopied and compared again after the later calls and after Close; payloads with long zero runs, direct-I/O files whose data end is swept across the last 32 bytes of a block and one written through an 8 MiB direct buffer are included. Exploration: bounded by the seeded case list, biased to marker bytes and buffer/page/4KiB-window boundaries.",
         "trusts the 90-line independent layout parser only as a cross-check; payloads embedding a complete valid record image are excluded (format-level ambiguity)", "§3 C04", "E1"),
 "C12": ("fault_enumeration", "fault enumeration on generated files: every truncation length, every record-header byte x 255 values, every unsupported file-header value; oracle = independent layout parser + written records",
         "For each generated file every truncation length and every single-byte alteration of every record-header byte (all 255 values on small files) is materialised and read with both readers, cut files additionally by a sequential program with SkipNext mixed in (every 4th case through the direct-I/O reader factory); every other sequential reader is closed twice before the random-access pass; the oracle demands genuine records only, and the slices the sequential reader returned are compared once more after the later calls and Close. Exhaustive over single-byte header damage for the generated files, sampled over files.",
         "header byte positions come from the harness's own parser (cross-checked against the writer's offsets on the undamaged file)", "§3 C12", "E1"),
 "C14": ("exploration", "reference-model monitor: map-with-tombstones model shadowing every memstore call; flush read back through the real table reader",
         "Every result/error of seeded call sequences over all methods is compared with the model, then both flush variants are read back with the real SSTable reader (Scan and Get, nil vs empty); lookup buffers are reused, iterator results are kept and re-inspected, and the spare capacity of returned keys is overwritten; every fifth program takes all its keys as prefixes of ONE caller buffer. Exploration over seeded programs; right level for a single-threaded in-memory structure.",
         "size estimate checked only for wrap-around (bounded by 4x bytes ever passed)", "§3 C14", "E1"),
})
CHECKS.update({
 "C03": ("exploration", "reference-model monitor: sorted-map model vs real table reader for every index loader, compression pair, bloom sizing and buffer size",
         "Generated tables (hostile keys incl. empty key and an index-dominating last key, nil/empty/marker-laden values) are written with both writers and opened with every index loader (every other table through loader values that already loaded earlier tables); Contains/Get on all keys and neighbours, full/starting-at/range scans on probe samples are compared with a sorted-map model; half of the evaluations pass all probe keys and bounds through reused caller buffers whose bytes behind the argument are marked and inspected after the call. Exploration over the seeded table list x loader matrix.",
         "map loader exercised only inside its documented fixed-width domain", "§3 C03", "E1"),
 "C08": ("exploration", "reference-model monitor: latest-wins union model vs stacked reader and real merger over stacks of real tables",
         "Stacks of 1..6 real tables with overlapping keys, tombstones and the empty key are built; stacked Get/Contains/scans, pairs of scans alive at the same time, both compacting reductions (merged into a real table and read back) and the plain merge are compared with the union model; half of the skip-list-loader stacks are ordered by a descending comparator; half of the stacks have compressed index files, one key family is long and compresses well. Exploration over seeded stacks.",
         "tombstone = nil value; nil values are filtered from merged read-backs before comparison", "§3 C08", "E1"),
})
CHECKS.update({
 "C09": ("fault_enumeration", "fault enumeration on generated tables: every data-file byte x 13 replacement values, every truncation, every record swap, under both verification modes; oracle = written values",
         "For each generated table every single-byte damage (bit flips, 00, FF, marker bytes), truncation length and record swap of the data file is materialised and read back through Get (twice in a row and once more after the scans, on the same reader), Scan and ScanRange with verify-on-load and verify-on-read (all spellings of the option pair; read buffers of 16 bytes .. default, mostly smaller than the data file), and as the newer member of a two-table stack through Get and all three scans; one table in four contains the empty key; any value different from the written one returned without error, or a panic, is a violation. Exhaustive over the enumerated damage for small tables, sampled over tables.",
         "CRC collisions would show as violations; empty/nil values only constrained under byte damage of uncompressed tables (format design)", "§3 C09", "E1"),
 "C15": ("exploration", "reference-model monitor + fault injection at the tag-guarded writer hook: accepted-pairs model vs real stream writer under arbitrary key sequences and clean data/index append failures",
         "Seeded WriteNext programs with unsorted/repeated/empty keys (one in three under a difference-valued comparator, half through one reused key buffer) and injected data- or index-append failures (incl. immediate retries) are run against the real writer; each call's result class, the table content after Close and every metadata field (vs real file sizes) are compared with the model.",
         "injected failures are clean failures (wrapped writer untouched), the shape of the repository's own failing-writer test double", "§3 C15", "E1+E6a"),
 "C20": ("exploration", "differential monitor: Kaitai-generated reader vs native reader vs independent layout parser on files written by the real writer; enum names read from the published .ksy",
         "Files with nil/empty/large records (payload lengths exactly at the varint boundaries 127/128, 16383/16384, 2097151/2097152) under all four compression types (one in four written by a program that rolls records back, every 6th case three files written at the same time from three goroutines, with rollback targets from Write's result or from Size(), refused seeks in between, and the writer given a path or a file handle: fresh, recycled after Truncate, or opened for appending) are decoded by the repository's Kaitai-generated reader and compared record by record (count, nil flag, stored bytes) with the native reader and an independent parser; compression codes are checked against the enum in recordio_v4.ksy.",
         "the generated Go reader stands for the schema (no kaitai-struct-compiler offline)", "§3 C20", "E1"),
})
CHECKS.update({
 "C11": ("fault_enumeration", "fault injection: exhaustive single faults at every input-iterator and output-writer position of the real merger; hook-level and RLIMIT_FSIZE (kernel EFBIG) faults inside SimpleDB flush/compaction in sub-processes; oracle = fault-free output / reference map",
         "(a) every Next position of every input (3 failure variants) and every WriteNext position of generated merges is failed once against the real Merge/MergeCompact/MergeCompactIterator; (b) flushes (forced, and the one Close performs) and compaction cycles (over all tables, and over a run that leaves the oldest table out) of a real SimpleDB (driven, and by the real background compactor while Close waits for it) run in sub-processes with a failing k-th data/index append, a failing input record a file-size limit that makes write(2) fail at a chosen byte, or one file of the new table on a full device (symlink to /dev/full: ENOSPC); success may only be reported for complete output, after a reported compaction error the same and a fresh process must still read the model.",
         "hook failures are clean failures; kernel faults only through RLIMIT_FSIZE (EFBIG); a failed flush ends in log.Panicf, what it leaves on disk is judged by C02", "§3 C11", "E6"),
})
CHECKS.update({
 "C01": ("exploration", "reference-model monitor: Go map shadowing every SimpleDB call of seeded single-client programs with driven (helper-placed) and live (ticker) flush/compaction schedules and per-session option redraws",
         "Seeded programs of Put/Delete/Get/rotation/compaction-cycle/Close+re-Open (new options each session) run against the real database; every read is compared with a map, every rotation, compaction and reopen is followed by a full read-back, one case logs 150 MiB of incompressible values into ONE memstore generation with every option at its default and is then cleanly re-opened twice, and a child killed by log.Panicf in the flusher or compactor is a violation. Exploration: the schedules are those the program places (driven) or the scheduler/ticker produce (live).",
         "valid keys/values only (a third of the keys are not valid UTF-8); live schedules are not enumerated, only sampled", "§3 C01", "E1"),
})
CHECKS.update({
 "C06": ("exploration", "reference-model monitor + tag-guarded single-cycle helper: read-all before/after every compaction cycle over built table lineages; selection checked as a contiguous run of the live table list",
         "Lineages of real tables with controlled sizes and tombstone ratios (tombstones over older, larger values; size- and ratio-selected tables around an unselected one) are built through forced rotations; every compaction cycle is bracketed by a read of all keys (identical before/after and equal to the map), its selection must be a gap-free run in age order replaced in the slot of its oldest member; settings are redrawn at reopens; one lineage in a hundred carries a value of 1..2 MiB in every table; one lineage in eight sits on top of one of the repository's legacy-format fixture tables (no metadata file, reports 0 records / 0 bytes).",
         "selection policy itself is not judged, only gap-freeness and placement", "§3 C06", "E1"),
 "C17": ("exploration", "differential monitor (string-API database vs byte-API database) + reference map that ignores rejected calls, observed directly / after rotation+flush / after clean reopen; sessions with a WAL that cannot append (direct I/O without async) as a source of I/O errors",
         "The same seeded program with nil/empty/non-UTF-8/64 KiB arguments runs against two databases through the two API flavours; decisions and results must agree, rejected calls (incl. calls on a handle before its Open) must leave no trace at any observation point, a Delete of a non-empty key must not be refused where Put accepts it, and reads must not change across flush or restart. Crash-image observation is provided by the C02 engine (C17 crash cases).",
         "nil byte slices correspond to empty strings; empty-key Delete only required to be invisible", "§3 C17", "E1"),
})
CHECKS.update({
 "C05": ("exploration", "offline linearizability checking (porcupine v1.3.0, per-key partition, single-register model) of client histories recorded at the API boundary under forced rotations, live/driven compactions and seeded delays at tag-guarded hook points",
         "Histories of 3..6 clients on 2..5 keys with unique written values are recorded with one monotonic clock while flushes and compactions overlap the calls (tiny memstore, 50us..1ms ticker or a chaos goroutine, delays between critical sections and one inside the reflection's critical section) and checked with porcupine; a checker timeout is inconclusive. Every 10th history has a rotation that fails (a directory planted where a coming WAL file would be created): mutations that returned an error stay in the history as open may-have-taken-effect calls (set-valued register state), Gets must keep succeeding and the history must stay linearizable. Every second history has a read storm (4..8 extra Get-only clients that never yield; half of them over 8..11 keys) so that lookups overlap inside the same table readers. Exploration over observed interleavings.",
         "only interleavings that actually occurred are judged; the evidence counts flushes/compactions inside the client window and overlapping call pairs", "§3 C05", "E3"),
 "C18": ("exploration", "Go race detector (-race build of the child, halt_on_error=0, reports parsed and de-duplicated by innermost go-sstables frames) + sequential-answer oracle over three concurrent workloads",
         "One SimpleDB handle (8 goroutines, own, shared and each other's keys with self-describing values, rotations and compactions running or everything in one memstore; in every other run callbacks at two named points make the flusher's table publication and the compactor's swap start within nanoseconds of each other, every run is closed while calls are in flight (a third of the way through, or during a tail of Puts that only Close ends), two shared keys hold 40..70 KiB values), one SSTableReader (8..16 goroutines of Get/Contains/range scans; one table in three without a bloom filter file) and one MMapReader (ReadNextAt/SeekNext) are exercised in the race-detector build across seeds and GOMAXPROCS {2,4,16}; any report touching go-sstables or the harness, any abnormal exit, any result differing from the sequential answer and any state-based deadlock (a client blocked inside the library while no library goroutine can run, read off the watchdog's goroutine dump) is a violation.",
         "the race detector reports only races that happened in the observed executions; Scan() is outside the documented concurrent surface", "§3 C18", "E4"),
 "C19": ("exploration", "resource census monitor: /proc/self/fd + /proc/self/maps filtered by directory and goroutine dump filtered by go-sstables frames, at quiescent points and after Close",
         "Driven SimpleDB sessions with >=40 cycles are censused at every quiescent point (descriptors <= 4, mappings <= live tables + 3) and after Close (nothing left, no library goroutine, re-Open and RemoveAll work); live sessions are closed while a compaction is held in flight at a hook point; table and RecordIO readers/writers (incl. failed Opens, abandoned scans, legacy-format tables, writers rewound before Close, stacked readers one member of which was closed before, delete-only sessions on a fresh directory, sessions with the asynchronous direct-I/O log on a real file system, and short sessions over planted crash residue (empty table folder, table folder with an empty metadata file, leftover compaction folder) with the garbage collector held off so that no finalizer hides a forgotten descriptor) must return to the baseline after Close.",
         "Linux /proc is the ground truth; goroutine attribution by stack frames", "§3 C19", "E5"),
})
CHECKS.update({
 "C02": ("fault_enumeration", "offline checker over recorded system-call logs: strace -f trace of real sessions -> in-memory file-system replay -> crash image at every mutating call (+ unlink-order permutations) -> fresh-process Open + read-all compared with the acknowledged-operations model",
         "Whole sessions (open, operations incl. runs of consecutive deletes, one put in three handed over in ONE reused caller buffer per key, memstore limits from 16 bytes to 64 MiB, values up to 6 MiB, size-triggered and forced rotations, background flushes and compactions, close, reopen) run under strace with INV/ACK markers in the same log; every boundary between two file-system-mutating system calls of any thread is turned into a directory image (fidelity self-check: final replayed image == real directory) and every distinct image is recovered by a fresh process (every 4th additionally continues with a put and a delete and is then either closed and re-opened or killed a second time and recovered again); every second run ends with a session driven by three concurrent clients on disjoint keys; Open must succeed and each key must read model(acked) or model(acked + in-flight op). Enumerates every crash point of the traced executions; sessions/schedules are sampled.",
         "kill -9 model (completed system calls retained, single write not torn); schedules are those that occurred under strace; other listing orders emulated for unlink runs only", "§2.2, §3 C02", "E2"),
})
CHECKS.update({
 "C07": ("fault_enumeration", "reference-model monitor (appended sequence vs fresh Replay) + offline checkers over strace logs of WAL-only sessions: crash image at every mutating call -> Replay in a fresh process must give a prefix containing all acknowledged sync appends; fsync-ordering monitor over write/fsync events",
         "(a) seeded append/rotate programs over limits {9..1MiB}, buffers and compressions (every 20th through the direct-I/O writer with 120..320 appends per program so that single files are flushed many times; base paths handed over in spellings that are not in cleaned form, another spelling for the fresh replayer; every 10th program shares its process with two other logs appended to from goroutines of their own; two programs in five replay through a reader factory with a 64 B / 1 KiB read buffer, i.e. records larger than the reader's buffer) are replayed through the still-open log object in between and by the same object and a fresh replayer at the end; (b) WAL-only sessions run under strace with small writer buffers so that flushes cut records, every boundary between mutating system calls is materialised and replayed by a fresh process; (c) the same log is scanned for 'write reached the file and the file was fsynced before AppendSync returned'; (d) programs whose appender meets a failing write(2) (RLIMIT_FSIZE in a sub-process) and goes on appending, retrying and rotating: replay must succeed and deliver the attempts minus failed ones as a gap-free prefix containing every acknowledged sync append.",
         "kill -9 model; nil and empty records are both length-0 payloads for the oracle", "§3 C07", "E1+E2"),
 "C10": ("fault_enumeration", "nested crash-image enumeration: level-1 images from traced sessions, recovery of each traced again, level-2 (sampled level-3) image at every mutating call of Open incl. unlink-order permutations; oracle = read-all after the uninterrupted recovery",
         "For sampled crash images of real sessions (per phase, incl. pending flagged compactions and non-empty WALs) the recovery itself runs under strace; after every mutating system call of that recovery (and for every subset of each listing-ordered unlink run) a fresh Open must succeed and read exactly what the uninterrupted recovery reads. Exhaustive over the crash points of the traced recoveries; level-1 images are sampled.",
         "kill -9 model; only unlinks issued relative to a directory descriptor (os.RemoveAll) are permuted, program-ordered unlinks are not", "§2.2, §3 C10", "E2"),
 "C13": ("fault_enumeration", "same engine as C02 with the asynchronous WAL: oracle = recovered content equals the reference map after some prefix p >= L of the invoked operations, L = operations acknowledged before the newest WAL file was created",
         "Traced sessions with EnableAsyncWAL, including ones that log 6..25 MB of incompressible values so that the 4 MiB WAL buffer wraps and cuts records (every second of those through the direct-I/O WAL writer on a real disk); every crash image is recovered by a fresh process; Open must succeed and the content must be a hole-free, order-preserving prefix that includes everything before the last rotation; the last session of every second small run is driven by three concurrent clients with disjoint keys (oracle there: whole-state prefix of the calls before the phase, or per client a prefix of that client's calls containing all its durable ones).",
         "kill -9 model; the in-flight operation may be the last element of the prefix; orderings between concurrent clients are not judged", "§3 C13", "E2"),
})
NOT_YET = {}
props = [json.loads(l) for l in open(os.path.join(ROOT, "properties.jsonl"))]
hooks_commits = []
try:
    out = subprocess.check_output(["git", "-C", "/repo", "log", "--format=%H %s"], text=True)
    for ln in out.splitlines():
        h, s = ln.split(" ", 1)
        if s.startswith("verif:") or s.startswith("hooks:"):
            hooks_commits.append(h)
except Exception:
    pass
checks = []
na = []
for p in props:
    i = p["id"]
    if i in CHECKS:
        cat, tech, text, note, ref, eng = CHECKS[i]
        checks.append({
            "property_id": i,
            "quick_cmd": f"./check {i} quick",
            "thorough_cmd": f"./check {i} thorough",
            "evidence_file": f"/verif/evidence/{i}.json",
            "replay_cmd_template": f"./check {i} --replay {{path}}",
            "engine": eng,
            "level_claimed": {"category": cat, "text": text, "design_ref": ref},
            "level_note": note,
            "technique": tech,
        })
    else:
        na.append({"property_id": i, "reason": NOT_YET.get(i, "check under construction in this session (runtime monitor designed in DESIGN.md, not yet registered)")})
m = {
 "version": 1,
 "setup_cmd": "./setup.sh",
 "hooks": {
   "guard": "verif",
   "enable": "go build -tags verif (done by ./check for the child binaries; -race added for C05/C18)",
   "baseline_off_cmd": "cd /repo && GOFLAGS=-mod=mod GOPROXY=off go test -json -vet=off -count=1 -timeout 25m ./...",
   "source_commits": hooks_commits,
   "add_only": True,
 },
 "engines": [
   {"name": "E1", "path": "/verif/internal/props", "kind_free_text": "reference-model monitors shadowing real API calls, seeded case lists, child processes"},
   {"name": "E2", "path": "/verif/internal/strace + /verif/internal/props/e2.go", "kind_free_text": "strace log parser, file-system replayer, crash-image materialiser, recovery oracle in sub-processes"},
   {"name": "E3", "path": "/verif/internal/props/c05.go", "kind_free_text": "history recorder + porcupine linearizability checker"},
   {"name": "E4", "path": "/verif/internal/props/c18.go", "kind_free_text": "race-detector runner: -race child, GORACE log parsing, report de-duplication"},
   {"name": "E5", "path": "/verif/internal/props/c19.go", "kind_free_text": "resource census (/proc fds, maps, goroutine dump)"},
   {"name": "E6", "path": "/verif/internal/props/c11.go", "kind_free_text": "fault injection: failing iterators/writers (public interfaces + tag-guarded hooks) and RLIMIT_FSIZE kernel-level write failures in sub-processes"},
 ],
 "checks": checks,
 "not_applicable": na,
 "notes": "All checks: ./check <id> quick|thorough; honours VERIF_SEED / VERIF_TIER; rebuilds children from /repo working tree with -tags verif. Exit 0 held / 1 VIOLATION / 2 inconclusive (observed too little or infrastructure failure).",
}
json.dump(m, open(os.path.join(ROOT, "MANIFEST.json"), "w"), indent=1)
print("checks:", len(checks), "not_applicable:", len(na))
