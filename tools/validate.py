#!/usr/bin/env python3
import json, sys, glob, jsonschema
ok = True
m = json.load(open('/verif/MANIFEST.json'))
jsonschema.validate(m, json.load(open('/root/.vp/MANIFEST.schema.json')))
es = json.load(open('/root/.vp/EVIDENCE.schema.json'))
for f in sorted(glob.glob('/verif/evidence/*.json')):
    try:
        jsonschema.validate(json.load(open(f)), es)
    except Exception as e:
        ok = False
        print("INVALID", f, str(e)[:300])
print("manifest ok; evidence", "ok" if ok else "BAD")
sys.exit(0 if ok else 1)
