#!/bin/bash
# tools/confirm_mutant.sh <Cxx> <mN>   — confirm a sub-agent's mutant in its scratch worktree (pinned commit):
# builds, existing suite passes with the patch, demo fails with it and passes without it.
set -u
ID=$1; M=$2
WT=${WTROOT:-/tmp/wt}/$ID; D=${MUTROOT:-/tmp/mut}/$ID/$M
export GOFLAGS=-mod=mod GOPROXY=off
OUT=$D/confirm.txt
: > $OUT
cd $WT || exit 2
git checkout -q -- . ; git clean -fdq
demo=$(ls $D/demo_test.go $D/*_test.go 2>/dev/null | head -1)
[ -z "$demo" ] && { echo "NO DEMO" | tee -a $OUT; exit 2; }
place=$(head -1 "$demo" | sed -n 's#^// place in: *##p' | tr -d ' \r')
[ -z "$place" ] && { echo "NO PLACE LINE" | tee -a $OUT; exit 2; }
git apply $D/patch.diff || { echo "PATCH DOES NOT APPLY" | tee -a $OUT; exit 2; }
go build ./... >>$OUT 2>&1 || { echo "BUILD FAILS" | tee -a $OUT; git checkout -q -- .; exit 2; }
if go test -vet=off -count=1 ./... >>$OUT 2>&1; then echo "suite-with-patch: PASS" >>$OUT; else echo "suite-with-patch: FAIL" | tee -a $OUT; git checkout -q -- .; git clean -fdq; exit 2; fi
cp "$demo" $place/zz_demo_test.go
if timeout 900 go test ${DEMO_FLAGS:-} -vet=off -count=1 ./$place/ >>$OUT 2>&1; then r1=PASS; else r1=FAIL; fi
echo "demo-with-patch: $r1" >>$OUT
git checkout -q -- .
if timeout 900 go test ${DEMO_FLAGS:-} -vet=off -count=1 ./$place/ >>$OUT 2>&1; then r2=PASS; else r2=FAIL; fi
echo "demo-without-patch: $r2" >>$OUT
rm -f $place/zz_demo_test.go; git clean -fdq
if [ $r1 = FAIL ] && [ $r2 = PASS ]; then echo "CONFIRMED $ID/$M" | tee -a $OUT; exit 0; fi
echo "NOT CONFIRMED $ID/$M (with=$r1 without=$r2)" | tee -a $OUT; exit 1
