#!/bin/bash
# tools/try_mutant.sh <mutant dir with patch.diff> <tier> <check ids...>
# Applies the patch to a scratch worktree of /repo's HEAD (so /repo stays usable), points the checks at it
# through a private modfile, runs them, removes the worktree. Prints DETECTED/MISSED per check.
set -u
D=$(readlink -f $1); TIER=$2; shift 2
name=$(echo "$D" | tr '/' '_')
WT=/tmp/mw/$name
mkdir -p /tmp/mw
git -C /repo worktree remove --force $WT 2>/dev/null
git -C /repo worktree add -q --detach $WT HEAD || exit 2
cd $WT
P="$D/patch.diff"; [ -f "$D/patch.ported.diff" ] && P="$D/patch.ported.diff"
if ! git apply "$P" 2>/dev/null; then
  if ! patch -p1 --fuzz=3 -s < "$P"; then echo "PATCH-FAILED $D"; cd /; git -C /repo worktree remove --force $WT; exit 2; fi
fi
MF=/verif/.work/mut-$name.mod
mkdir -p /verif/.work
sed "s#=> /repo#=> $WT#" /verif/go.mod > $MF
cp /verif/go.sum /verif/.work/mut-$name.sum
for id in "$@"; do
  out=$(cd /verif && VERIF_MODFILE=$MF VERIF_NO_EVIDENCE=1 ./check $id $TIER 2>&1); rc=$?
  if [ $rc -eq 1 ] && echo "$out" | grep -q "^VIOLATION"; then
    echo "DETECTED $D by $id ($TIER): $(echo "$out" | grep '^VIOLATION' | sed 's/.*signature=//' | cut -c1-110 | head -3 | tr '\n' ';')"
  else
    echo "MISSED $D by $id ($TIER) rc=$rc: $(echo "$out" | grep -v '^  ' | tail -1 | cut -c1-200)"
  fi
done
cd /; git -C /repo worktree remove --force $WT; rm -f $MF /verif/.work/mut-$name.sum
