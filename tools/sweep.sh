#!/bin/bash
# tools/sweep.sh <tier> <seeds...> : every registered check (or those named in $CHECKS) on the unchanged tree; one summary line per run.
# Works from the directory it lives in (so it can run inside a `vp run` snapshot); evidence is not touched.
TIER=$1; shift
ROOT=$(cd "$(dirname "$(readlink -f "$0")")/.." && pwd)
OUT=$ROOT/sweep-$TIER.log
: > $OUT
for s in "$@"; do
  for id in ${CHECKS:-C01 C02 C03 C04 C05 C06 C07 C08 C09 C10 C11 C12 C13 C14 C15 C16 C17 C18 C19 C20}; do
    out=$(cd $ROOT && VERIF_SEED=$s VERIF_NO_EVIDENCE=1 ./check $id $TIER 2>&1); rc=$?
    echo "seed=$s $id rc=$rc $(echo "$out" | grep -E "^$id " | cut -c1-160)" >> $OUT
    if [ $rc -ne 0 ]; then echo "$out" | grep -E "VIOLATION|INCONCL|BUILD|detail" | cut -c1-600 >> $OUT; fi
  done
done
echo sweep-done >> $OUT
