#!/bin/bash
# tools/sweep.sh <tier> <seeds...> : every registered check on the unchanged tree; one summary line per run.
# Works from the directory it lives in (so it can run inside a `vp run` snapshot); evidence is not touched.
TIER=$1; shift
ROOT=$(cd "$(dirname "$(readlink -f "$0")")/.." && pwd)
OUT=$ROOT/sweep-$TIER.log
: > $OUT
for s in "$@"; do
  for i in $(seq -w 1 20); do
    out=$(cd $ROOT && VERIF_SEED=$s VERIF_NO_EVIDENCE=1 ./check C$i $TIER 2>&1); rc=$?
    echo "seed=$s C$i rc=$rc $(echo "$out" | grep -E "^C$i " | cut -c1-160)" >> $OUT
    if [ $rc -ne 0 ]; then echo "$out" | grep -E "VIOLATION|INCONCL|BUILD|detail" | cut -c1-600 >> $OUT; fi
  done
done
echo sweep-done >> $OUT
