#!/bin/bash
# tools/mutant_matrix.sh <mutants root> [tier] : runs every mutant against the check of its own property (and the
# closely related ones listed below); one line per (mutant, check) in <root>/matrix.log
ROOT=${1:-/tmp/mut}; TIER=${2:-quick}
declare -A EXTRA=( [C01]="C06 C05" [C02]="C10 C13" [C03]="C04 C07" [C05]="C01 C18" [C06]="C01" [C07]="C04 C03" [C10]="C02" [C13]="C02 C07" [C15]="C04" [C17]="" [C18]="C05" [C19]="" )
: > $ROOT/matrix.log
for d in $(ls -d $ROOT/C*/m* 2>/dev/null | grep -v '\.bak$' | sort); do
  id=$(basename $(dirname $d))
  /verif/tools/try_mutant.sh $d $TIER $id ${EXTRA[$id]:-} 2>&1 | grep -E "DETECTED|MISSED|PATCH-FAILED" >> $ROOT/matrix.log
done
echo matrix done >> $ROOT/matrix.log
