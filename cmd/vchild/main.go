// vchild runs the code under observation. It is rebuilt from /repo's working tree (with
// -tags verif, optionally -race) by ./check on every invocation.
package main

import (
	"bufio"
	"encoding/json"
	"flag"
	"fmt"
	"io"
	"log"
	"os"

	"verif/internal/fw"
	_ "verif/internal/props"
)

func main() {
	if len(os.Args) < 2 {
		fmt.Fprintln(os.Stderr, "usage: vchild meta|run|<sub> ...")
		os.Exit(2)
	}
	if os.Getenv("VERIF_LIBLOG") == "" {
		log.SetOutput(io.Discard) // the library logs every flush/compaction
	}
	switch os.Args[1] {
	case "meta":
		p := fw.Lookup(os.Args[2])
		if p == nil {
			fmt.Fprintln(os.Stderr, "unknown property", os.Args[2])
			os.Exit(2)
		}
		b, _ := json.Marshal(p.Meta(os.Args[3]))
		fmt.Println(string(b))
	case "run":
		fs := flag.NewFlagSet("run", flag.ExitOnError)
		seed := fs.Int64("seed", 1, "")
		tier := fs.String("tier", "quick", "")
		from := fs.Int("from", 0, "")
		to := fs.Int("to", 0, "")
		out := fs.String("out", "", "")
		_ = fs.Parse(os.Args[3:])
		p := fw.Lookup(os.Args[2])
		if p == nil {
			fmt.Fprintln(os.Stderr, "unknown property", os.Args[2])
			os.Exit(2)
		}
		f, err := os.OpenFile(*out, os.O_CREATE|os.O_WRONLY|os.O_APPEND, 0644)
		if err != nil {
			fmt.Fprintln(os.Stderr, err)
			os.Exit(2)
		}
		w := bufio.NewWriter(f)
		enc := json.NewEncoder(w)
		for i := *from; i < *to; i++ {
			_ = enc.Encode(fw.CaseResult{T: "start", Idx: i})
			_ = w.Flush()
			res := fw.RunCase(p, *seed, *tier, i)
			_ = enc.Encode(res)
			_ = w.Flush()
		}
		_ = f.Close()
	default:
		sub := fw.LookupSub(os.Args[1])
		if sub == nil {
			fmt.Fprintln(os.Stderr, "unknown sub-command", os.Args[1])
			os.Exit(2)
		}
		os.Exit(sub(os.Args[2:]))
	}
}
