// vdriver fans the cases of one property out to child processes, aggregates their verdicts,
// matches violations against known_findings.json, writes evidence/<id>.json and replay files,
// and sets the exit code: 0 held on everything observed, 1 violation, 2 inconclusive / observed nothing.
// It never runs library code itself.
package main

import (
	"bufio"
	"bytes"
	"crypto/sha256"
	"encoding/hex"
	"encoding/json"
	"flag"
	"fmt"
	"os"
	"os/exec"
	"path/filepath"
	"runtime"
	"sort"
	"strconv"
	"strings"
	"sync"
	"time"

	"verif/internal/fw"
)

type known struct {
	Property    string `json:"property"`
	Status      string `json:"status"` // "known" | "fixed"
	Signature   string `json:"signature"`
	Commit      string `json:"commit,omitempty"`
	Description string `json:"description"`
}

type chunk struct{ from, to int }

type agg struct {
	mu          sync.Mutex
	evals       int64
	units       int64
	hashesNT    map[string]bool
	dnt         int64
	obs         map[string]int64
	samples     []any
	viol        map[string][]violRec // by signature
	inconcl     []string
	deaths      int
	casesDone   int
	maxObsNames map[string]bool
}

type violRec struct {
	Idx    int
	Detail string
	Sample any
}

func main() {
	child := flag.String("child", "", "path of vchild")
	prop := flag.String("prop", "", "property id")
	tier := flag.String("tier", "quick", "quick|thorough")
	replay := flag.String("replay", "", "replay file")
	root := flag.String("root", "/verif", "verif root")
	flag.Parse()

	seed := int64(1)
	if s := os.Getenv("VERIF_SEED"); s != "" {
		if v, err := strconv.ParseInt(s, 10, 64); err == nil {
			seed = v
		}
	}
	if *replay != "" {
		os.Exit(doReplay(*child, *replay))
	}
	start := time.Now()

	metaOut, err := exec.Command(*child, "meta", *prop, *tier).Output()
	if err != nil {
		fmt.Fprintf(os.Stderr, "driver: cannot get meta for %s: %v\n", *prop, err)
		os.Exit(2)
	}
	var meta fw.Meta
	if err := json.Unmarshal(metaOut, &meta); err != nil {
		fmt.Fprintf(os.Stderr, "driver: bad meta: %v\n", err)
		os.Exit(2)
	}
	if meta.Chunk <= 0 {
		meta.Chunk = 1
	}
	if meta.CaseTimeoutS <= 0 {
		meta.CaseTimeoutS = 120
	}
	workers := runtime.NumCPU()
	if meta.Workers > 0 && meta.Workers < workers {
		workers = meta.Workers
	}

	work, err := os.MkdirTemp(filepath.Join(*root, ".work"), "drv-"+*prop+"-")
	if err != nil {
		_ = os.MkdirAll(filepath.Join(*root, ".work"), 0755)
		work, err = os.MkdirTemp(filepath.Join(*root, ".work"), "drv-"+*prop+"-")
		if err != nil {
			fmt.Fprintln(os.Stderr, "driver:", err)
			os.Exit(2)
		}
	}
	defer os.RemoveAll(work)

	var qmu sync.Mutex
	var queue []chunk
	for i := 0; i < meta.N; i += meta.Chunk {
		e := i + meta.Chunk
		if e > meta.N {
			e = meta.N
		}
		queue = append(queue, chunk{i, e})
	}
	pop := func() (chunk, bool) {
		qmu.Lock()
		defer qmu.Unlock()
		if len(queue) == 0 {
			return chunk{}, false
		}
		c := queue[0]
		queue = queue[1:]
		return c, true
	}
	push := func(c chunk) {
		qmu.Lock()
		queue = append([]chunk{c}, queue...)
		qmu.Unlock()
	}

	a := &agg{hashesNT: map[string]bool{}, obs: map[string]int64{}, viol: map[string][]violRec{}}
	var wg sync.WaitGroup
	for w := 0; w < workers; w++ {
		wg.Add(1)
		go func(w int) {
			defer wg.Done()
			n := 0
			for {
				c, ok := pop()
				if !ok {
					return
				}
				n++
				out := filepath.Join(work, fmt.Sprintf("w%d-%d.jsonl", w, n))
				errf := filepath.Join(work, fmt.Sprintf("w%d-%d.err", w, n))
				ncases := c.to - c.from
				tmo := meta.CaseTimeoutS*ncases + 30
				if lim := meta.CaseTimeoutS*8 + 30; ncases > 8 && tmo > lim {
					tmo = lim
				}
				cmd := exec.Command("timeout", "-s", "QUIT", "-k", "10", strconv.Itoa(tmo), *child, "run", *prop,
					"-seed", strconv.FormatInt(seed, 10), "-tier", *tier,
					"-from", strconv.Itoa(c.from), "-to", strconv.Itoa(c.to), "-out", out)
				ef, _ := os.Create(errf)
				cmd.Stdout = ef
				cmd.Stderr = ef
				cmd.Env = append(os.Environ(), "VERIF_DISK_SCRATCH="+work)
				runErr := cmd.Run()
				ef.Close()
				last, lastDone := a.absorb(out)
				if runErr != nil || (last >= 0 && !lastDone) || (last < c.to-1) {
					// the child ended early: identify the case it was in
					code := -1
					if ee, ok := runErr.(*exec.ExitError); ok {
						code = ee.ExitCode()
					}
					dead := last
					if lastDone || last < 0 {
						dead = last + 1
						if last < 0 {
							dead = c.from
						}
					}
					tail := tailFile(errf, 6000)
					a.mu.Lock()
					if code == 124 || code == 137 {
						full, _ := os.ReadFile(errf)
						if site, dl := fw.ClassifyHang(string(full)); dl {
							sig := "deadlock/" + site
							a.viol[sig] = append(a.viol[sig], violRec{Idx: dead, Detail: "a harness call into the library has been blocked for minutes and no library goroutine can run any more (goroutine dump at the watchdog):\n" + cutStr(string(full), 5000)})
							a.evals++
						} else {
							a.inconcl = append(a.inconcl, fmt.Sprintf("case %d: watchdog expired (%ds)", dead, tmo))
						}
					} else {
						a.deaths++
						sig := "child-died/" + fw.PanicSite(tail)
						a.viol[sig] = append(a.viol[sig], violRec{Idx: dead, Detail: fmt.Sprintf("child exit=%d err=%v\n%s", code, runErr, tail)})
						a.evals++
					}
					a.mu.Unlock()
					if dead+1 < c.to {
						push(chunk{dead + 1, c.to})
					}
				}
				_ = os.Remove(out)
				_ = os.Remove(errf)
			}
		}(w)
	}
	wg.Wait()

	// ---- verdict
	outRoot := *root
	if os.Getenv("VERIF_NO_EVIDENCE") != "" {
		outRoot = work // trial runs against scratch copies must not touch evidence/ and replays/
	}
	var kf []known
	if b, err := os.ReadFile(filepath.Join(*root, "known_findings.json")); err == nil {
		if err := json.Unmarshal(b, &kf); err != nil {
			fmt.Fprintln(os.Stderr, "driver: known_findings.json unreadable:", err)
			os.Exit(2)
		}
	}
	isKnown := func(sig string) *known {
		for i := range kf {
			if kf[i].Property == *prop && kf[i].Status == "known" && kf[i].Signature == sig {
				return &kf[i]
			}
		}
		return nil
	}
	var sigs []string
	for s := range a.viol {
		sigs = append(sigs, s)
	}
	sort.Strings(sigs)
	nviol := 0
	var knownSeen []map[string]any
	for _, s := range sigs {
		recs := a.viol[s]
		sort.Slice(recs, func(i, j int) bool { return recs[i].Idx < recs[j].Idx })
		if k := isKnown(s); k != nil {
			fmt.Printf("KNOWN-FINDING: property=%s %s (%d cases, e.g. case %d) %s\n", *prop, s, len(recs), recs[0].Idx, k.Description)
			knownSeen = append(knownSeen, map[string]any{"signature": s, "cases": len(recs), "first_case": recs[0].Idx})
			continue
		}
		nviol += len(recs)
		h := sha256.Sum256([]byte(s))
		rp := filepath.Join(outRoot, "replays", *prop, hex.EncodeToString(h[:6])+".json")
		_ = fw.WriteJSON(rp, map[string]any{
			"property": *prop, "seed": seed, "tier": *tier, "case": recs[0].Idx, "signature": s,
			"detail": recs[0].Detail, "sample": recs[0].Sample, "cases_with_this_signature": len(recs),
		})
		fmt.Printf("VIOLATION property=%s replay=%s signature=%s cases=%d first_case=%d\n", *prop, rp, s, len(recs), recs[0].Idx)
		fmt.Printf("  detail: %s\n", strings.ReplaceAll(cutStr(recs[0].Detail, 600), "\n", "\n    "))
	}

	// observed-nothing rule
	var missing []string
	for k, min := range meta.MinObs {
		if a.obs[k] < min {
			missing = append(missing, fmt.Sprintf("%s=%d<%d", k, a.obs[k], min))
		}
	}
	sort.Strings(missing)
	dnt := a.dnt
	if dnt < meta.MinNT {
		missing = append(missing, fmt.Sprintf("distinct_nontrivial=%d<%d", dnt, meta.MinNT))
	}

	if len(a.samples) == 0 {
		a.samples = append(a.samples, "no sample recorded")
	}
	evals := a.evals
	if a.units > 0 {
		evals = a.units
	}
	cov := map[string]any{
		"evaluations":         evals,
		"cases":               a.casesDone,
		"distinct_nontrivial": dnt,
		"rule":                meta.Rule,
		"samples":             a.samples,
		"observations":        a.obs,
		"inconclusive":        a.inconcl,
		"child_deaths":        a.deaths,
		"known_findings_seen": knownSeen,
		"exhaustive":          meta.Exhaustive,
		"min_observations":    meta.MinObs,
	}
	ev := map[string]any{
		"property_id": *prop, "tier": *tier, "seed": seed, "level": meta.Level,
		"coverage": cov, "assumptions": meta.Assumptions,
		"wall_s": time.Since(start).Seconds(), "violations": nviol,
	}
	if err := fw.WriteJSON(filepath.Join(outRoot, "evidence", *prop+".json"), ev); err != nil {
		fmt.Fprintln(os.Stderr, "driver: evidence:", err)
		os.Exit(2)
	}
	obsKeys := make([]string, 0, len(a.obs))
	for k := range a.obs {
		obsKeys = append(obsKeys, k)
	}
	sort.Strings(obsKeys)
	var ob []string
	for _, k := range obsKeys {
		ob = append(ob, fmt.Sprintf("%s=%d", k, a.obs[k]))
	}
	fmt.Printf("%s %s seed=%d: cases=%d evaluations=%d distinct_nontrivial=%d violations=%d known=%d inconclusive=%d wall=%.1fs\n  observed: %s\n",
		*prop, *tier, seed, a.casesDone, evals, dnt, nviol, len(knownSeen), len(a.inconcl), time.Since(start).Seconds(), strings.Join(ob, " "))
	if nviol > 0 {
		os.Exit(1)
	}
	if len(missing) > 0 {
		fmt.Printf("INCONCLUSIVE property=%s observed too little: %s\n", *prop, strings.Join(missing, ", "))
		os.Exit(2)
	}
	if len(a.inconcl) > 0 {
		for _, s := range a.inconcl {
			fmt.Printf("  inconclusive: %s\n", s)
		}
	}
	os.Exit(0)
}

func cutStr(s string, n int) string {
	if len(s) > n {
		return s[:n] + "..."
	}
	return s
}

func tailFile(p string, n int) string {
	b, err := os.ReadFile(p)
	if err != nil {
		return ""
	}
	// prefer the panic / fatal header if present
	if i := bytes.Index(b, []byte("panic: ")); i >= 0 && len(b)-i > n {
		return string(b[i : i+n])
	}
	if i := bytes.Index(b, []byte("fatal error: ")); i >= 0 && len(b)-i > n {
		return string(b[i : i+n])
	}
	if len(b) > n {
		b = b[len(b)-n:]
	}
	return string(b)
}

// absorb reads a child's output file; returns the last case index seen and whether it has a result.
func (a *agg) absorb(path string) (last int, done bool) {
	last = -1
	f, err := os.Open(path)
	if err != nil {
		return
	}
	defer f.Close()
	sc := bufio.NewScanner(f)
	sc.Buffer(make([]byte, 1<<20), 64<<20)
	for sc.Scan() {
		var r fw.CaseResult
		if err := json.Unmarshal(sc.Bytes(), &r); err != nil {
			continue
		}
		if r.T == "start" {
			last, done = r.Idx, false
			continue
		}
		last, done = r.Idx, true
		a.mu.Lock()
		a.casesDone++
		a.evals++
		if r.Units > 0 {
			a.units += r.Units
		} else {
			a.units++
		}
		if r.Nontrivial && !a.hashesNT[r.Hash] {
			a.hashesNT[r.Hash] = true
			if r.DistinctNT > 0 {
				a.dnt += r.DistinctNT
			} else {
				a.dnt++
			}
		}
		for k, v := range r.Obs {
			if strings.HasPrefix(k, "max_") {
				if v > a.obs[k] {
					a.obs[k] = v
				}
			} else {
				a.obs[k] += v
			}
		}
		if r.Sample != nil && len(a.samples) < 3 {
			a.samples = append(a.samples, r.Sample)
		}
		for _, v := range r.Viol {
			a.viol[v.Sig] = append(a.viol[v.Sig], violRec{Idx: r.Idx, Detail: v.Detail, Sample: r.Sample})
		}
		if r.Inconclusive != "" {
			a.inconcl = append(a.inconcl, fmt.Sprintf("case %d: %s", r.Idx, r.Inconclusive))
		}
		a.mu.Unlock()
	}
	return
}

func doReplay(child, path string) int {
	b, err := os.ReadFile(path)
	if err != nil {
		fmt.Fprintln(os.Stderr, err)
		return 2
	}
	var rp struct {
		Property  string `json:"property"`
		Seed      int64  `json:"seed"`
		Tier      string `json:"tier"`
		Case      int    `json:"case"`
		Signature string `json:"signature"`
	}
	if err := json.Unmarshal(b, &rp); err != nil {
		fmt.Fprintln(os.Stderr, err)
		return 2
	}
	tries := 5
	hits := 0
	for t := 0; t < tries; t++ {
		out, _ := os.CreateTemp("", "replay-*.jsonl")
		out.Close()
		cmd := exec.Command(child, "run", rp.Property, "-seed", strconv.FormatInt(rp.Seed, 10), "-tier", rp.Tier,
			"-from", strconv.Itoa(rp.Case), "-to", strconv.Itoa(rp.Case+1), "-out", out.Name())
		cmd.Stderr = os.Stderr
		err := cmd.Run()
		a := &agg{hashesNT: map[string]bool{}, obs: map[string]int64{}, viol: map[string][]violRec{}}
		_, done := a.absorb(out.Name())
		os.Remove(out.Name())
		if err != nil || !done {
			fmt.Printf("replay try %d: child died (%v)\n", t+1, err)
			if strings.HasPrefix(rp.Signature, "child-died/") {
				hits++
			}
			continue
		}
		for s, r := range a.viol {
			fmt.Printf("replay try %d: %s: %s\n", t+1, s, cutStr(r[0].Detail, 2000))
			if s == rp.Signature {
				hits++
			}
		}
		if hits > 0 && t == 0 {
			break
		}
	}
	fmt.Printf("replay of %s case %d: signature %s reproduced in %d run(s)\n", rp.Property, rp.Case, rp.Signature, hits)
	if hits > 0 {
		fmt.Printf("VIOLATION property=%s replay=%s\n", rp.Property, path)
		return 1
	}
	return 0
}
