// Package rio is the harness's own, independent parser of the RecordIO V4 on-disk layout
// (about 60 lines; it shares no code with the library). The monitors use it to locate
// record-header bytes (C12), to slice out stored payloads (C20) and to cross-check offsets (C04).
package rio

import (
	"encoding/binary"
	"errors"
	"hash/crc32"
)

type Rec struct {
	Start      int // offset of the marker
	NilFlagOff int
	RawLenOff  int
	CompLenOff int
	CrcOff     int
	PayloadOff int // == header end
	PayloadLen int // stored bytes (0 for nil records)
	Nil        bool
	RawLen     uint64
	CompLen    uint64
	Crc        uint64
	CrcOK      bool
}

func (r Rec) End() int       { return r.PayloadOff + r.PayloadLen }
func (r Rec) HeaderLen() int { return r.PayloadOff - r.Start }

type File struct {
	Version     uint32
	Compression uint32
	Recs        []Rec
	// Tail is the offset where parsing stopped (== len(data) for a clean file, or start of zero padding).
	Tail int
}

var ErrShort = errors.New("rio: short file")

func uvarint(b []byte, off int) (uint64, int, bool) {
	v, n := binary.Uvarint(b[off:])
	if n <= 0 {
		return 0, 0, false
	}
	return v, n, true
}

// Parse decodes a V4 file image. It stops at the first position that is not a well-formed
// record (e.g. direct-I/O zero padding) and reports that position in Tail.
func Parse(data []byte) (*File, error) {
	if len(data) < 8 {
		return nil, ErrShort
	}
	f := &File{Version: binary.LittleEndian.Uint32(data[0:4]), Compression: binary.LittleEndian.Uint32(data[4:8])}
	off := 8
	tab := crc32.MakeTable(crc32.Castagnoli)
	for off < len(data) {
		if len(data)-off < 3 || data[off] != 0x91 || data[off+1] != 0x8d || data[off+2] != 0x4c {
			break
		}
		r := Rec{Start: off, NilFlagOff: off + 3}
		p := off + 3
		if p >= len(data) {
			break
		}
		r.Nil = data[p] == 1
		p++
		r.RawLenOff = p
		v, n, ok := uvarint(data, p)
		if !ok {
			break
		}
		r.RawLen = v
		p += n
		r.CompLenOff = p
		v, n, ok = uvarint(data, p)
		if !ok {
			break
		}
		r.CompLen = v
		p += n
		r.CrcOff = p
		want := crc32.Checksum(data[off:p], tab)
		v, n, ok = uvarint(data, p)
		if !ok {
			break
		}
		r.Crc = v
		r.CrcOK = uint64(want) == v
		p += n
		r.PayloadOff = p
		if !r.Nil {
			if f.Compression != 0 {
				r.PayloadLen = int(r.CompLen)
			} else {
				r.PayloadLen = int(r.RawLen)
			}
		}
		if r.PayloadLen < 0 || p+r.PayloadLen > len(data) {
			break
		}
		f.Recs = append(f.Recs, r)
		off = p + r.PayloadLen
	}
	f.Tail = off
	return f, nil
}
