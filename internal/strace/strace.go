// Package strace parses `strace -f -xx` logs of a traced session and replays the file-system
// mutations into an in-memory model of one directory tree. After every mutating call the model is one
// crash image: what a kill -9 between that call and the next would leave behind (completed system
// calls are retained, a single write is not torn).
//
// Ordering: calls are applied in order of completion as they appear in the log, except close(2), which
// is applied at syscall entry (the descriptor number becomes reusable at entry).
package strace

import (
	"bufio"
	"crypto/sha256"
	"encoding/hex"
	"fmt"
	"io"
	"os"
	"path/filepath"
	"regexp"
	"sort"
	"strconv"
	"strings"
)

type Call struct {
	Pid     string
	Name    string
	Args    []string // raw argument strings (strings still escaped)
	Ret     int64
	RetOK   bool // has a numeric, non-negative return value
	Line    int
	Entry   bool // this is only the entry half (<unfinished ...>)
	Resumed bool
}

// splitArgs splits a syscall argument list at top-level commas.
func splitArgs(s string) []string {
	var out []string
	depth := 0
	inStr := false
	start := 0
	for i := 0; i < len(s); i++ {
		ch := s[i]
		if inStr {
			if ch == '\\' {
				i++
			} else if ch == '"' {
				inStr = false
			}
			continue
		}
		switch ch {
		case '"':
			inStr = true
		case '(', '[', '{':
			depth++
		case ')', ']', '}':
			depth--
		case ',':
			if depth == 0 {
				out = append(out, strings.TrimSpace(s[start:i]))
				start = i + 1
			}
		}
	}
	if strings.TrimSpace(s[start:]) != "" {
		out = append(out, strings.TrimSpace(s[start:]))
	}
	return out
}

// Unescape decodes a strace -xx string literal ("\x41\x42"...); truncated tells whether strace cut it.
func Unescape(arg string) (data []byte, truncated bool, ok bool) {
	arg = strings.TrimSpace(arg)
	if strings.HasSuffix(arg, "...") {
		truncated = true
		arg = strings.TrimSuffix(arg, "...")
	}
	if len(arg) < 2 || arg[0] != '"' || arg[len(arg)-1] != '"' {
		return nil, truncated, false
	}
	body := arg[1 : len(arg)-1]
	data = make([]byte, 0, len(body)/4)
	for i := 0; i < len(body); {
		if body[i] == '\\' && i+3 < len(body)+0 && body[i+1] == 'x' {
			v, err := strconv.ParseUint(body[i+2:i+4], 16, 8)
			if err != nil {
				return nil, truncated, false
			}
			data = append(data, byte(v))
			i += 4
			continue
		}
		if body[i] == '\\' && i+1 < len(body) {
			switch body[i+1] {
			case 'n':
				data = append(data, '\n')
			case 't':
				data = append(data, '\t')
			case 'r':
				data = append(data, '\r')
			case '\\':
				data = append(data, '\\')
			case '"':
				data = append(data, '"')
			default:
				return nil, truncated, false
			}
			i += 2
			continue
		}
		data = append(data, body[i])
		i++
	}
	return data, truncated, true
}

var reResult = regexp.MustCompile(`\)\s+= `)

// ParseLine parses one log line into a Call (ok=false for signal/exit/other lines).
func parseLine(line string, pending map[string]string) (c Call, ok bool) {
	sp := strings.IndexByte(line, ' ')
	if sp <= 0 {
		return c, false
	}
	pid := line[:sp]
	if _, err := strconv.Atoi(pid); err != nil {
		return c, false
	}
	rest := strings.TrimLeft(line[sp+1:], " ")
	if strings.HasPrefix(rest, "+++") || strings.HasPrefix(rest, "---") {
		return c, false
	}
	c.Pid = pid
	if strings.HasPrefix(rest, "<... ") {
		// resumed
		end := strings.Index(rest, " resumed>")
		if end < 0 {
			return c, false
		}
		prefix, has := pending[pid]
		if !has {
			return c, false
		}
		delete(pending, pid)
		rest = prefix + rest[end+len(" resumed>"):]
		c.Resumed = true
	} else if strings.HasSuffix(rest, "<unfinished ...>") {
		body := strings.TrimSuffix(rest, "<unfinished ...>")
		pending[pid] = body
		// report the entry half (needed for close)
		p := strings.IndexByte(body, '(')
		if p <= 0 {
			return c, false
		}
		c.Name = body[:p]
		c.Args = splitArgs(strings.TrimSpace(body[p+1:]))
		c.Entry = true
		return c, true
	}
	p := strings.IndexByte(rest, '(')
	if p <= 0 {
		return c, false
	}
	c.Name = rest[:p]
	// find the closing paren of the call: the last ") = "
	locs := reResult.FindAllStringIndex(rest, -1)
	if len(locs) == 0 {
		return c, false
	}
	eq, eqEnd := locs[len(locs)-1][0], locs[len(locs)-1][1]
	if eq < p {
		return c, false
	}
	c.Args = splitArgs(rest[p+1 : eq])
	rs := strings.TrimSpace(rest[eqEnd:])
	if f := strings.Fields(rs); len(f) > 0 {
		if v, err := strconv.ParseInt(f[0], 0, 64); err == nil {
			c.Ret = v
			c.RetOK = v >= 0
		}
	}
	return c, true
}

// ---------------- file system model

type file struct {
	data []byte
	hash string // cache
}

type fdEnt struct {
	path   string
	f      *file // nil for directories / files outside the root
	off    int64
	append bool
	isDir  bool
	inRoot bool
	dirty  bool // written since the last fsync (for the fsync-ordering monitor)
}

type Event struct {
	Kind string // "marker" | "mutation" | "fsync" | "walcreate"
	// marker
	Marker string
	// mutation
	Call  string
	Path  string // path relative to root (of the primary object)
	Seq   int    // mutation index (1-based) — image k = state after mutation k
	Fd    int
	Clean bool // fsync: whether fd had no unsynced writes before (informational)
}

type Replayer struct {
	Root    string
	Ctl     string
	files   map[string]*file // absolute path -> file
	dirs    map[string]bool
	fds     map[int]*fdEnt
	pending map[string]string
	Cwd     string

	Mutations int
	// Problems collects anything the replayer did not understand (=> run is inconclusive)
	Problems []string
	lineNo   int
	// unlink runs: consecutive successful unlinks in one directory (for listing-order emulation)
	lastUnlinkDir string
	UnlinkRun     []string // absolute paths of the current run
	UnlinkSaved   map[string][]byte
}

func NewReplayer(root, ctl string) *Replayer {
	return &Replayer{Root: filepath.Clean(root), Ctl: ctl, files: map[string]*file{}, dirs: map[string]bool{filepath.Clean(root): true},
		fds: map[int]*fdEnt{}, pending: map[string]string{}}
}

// LoadInitial seeds the model with the current content of the root directory (for nested replays).
func (r *Replayer) LoadInitial() error {
	return filepath.Walk(r.Root, func(p string, info os.FileInfo, err error) error {
		if err != nil {
			return err
		}
		if info.IsDir() {
			r.dirs[p] = true
			return nil
		}
		b, err := os.ReadFile(p)
		if err != nil {
			return err
		}
		r.files[p] = &file{data: b}
		return nil
	})
}

// LoadInitialFrom seeds the model with the content of src, mapped below Root (src is a pristine copy of the
// directory the traced process is going to work on).
func (r *Replayer) LoadInitialFrom(src string) error {
	src = filepath.Clean(src)
	return filepath.Walk(src, func(p string, info os.FileInfo, err error) error {
		if err != nil {
			return err
		}
		t := filepath.Join(r.Root, strings.TrimPrefix(p, src))
		if info.IsDir() {
			r.dirs[filepath.Clean(t)] = true
			return nil
		}
		b, err := os.ReadFile(p)
		if err != nil {
			return err
		}
		r.files[filepath.Clean(t)] = &file{data: b}
		return nil
	})
}

func (r *Replayer) under(p string) bool {
	return p == r.Root || strings.HasPrefix(p, r.Root+"/")
}

func (r *Replayer) resolve(dirfdArg, pathArg string) (string, bool) {
	b, _, ok := Unescape(pathArg)
	if !ok {
		return "", false
	}
	p := string(b)
	if filepath.IsAbs(p) {
		return filepath.Clean(p), true
	}
	if dirfdArg == "AT_FDCWD" || dirfdArg == "" {
		if r.Cwd == "" {
			return "", false
		}
		return filepath.Clean(filepath.Join(r.Cwd, p)), true
	}
	fd, err := strconv.Atoi(dirfdArg)
	if err != nil {
		return "", false
	}
	e := r.fds[fd]
	if e == nil {
		return "", false
	}
	return filepath.Clean(filepath.Join(e.path, p)), true
}

func (r *Replayer) problem(f string, a ...any) {
	if len(r.Problems) < 20 {
		r.Problems = append(r.Problems, fmt.Sprintf("line %d: ", r.lineNo)+fmt.Sprintf(f, a...))
	}
}

func (r *Replayer) rel(p string) string {
	return strings.TrimPrefix(strings.TrimPrefix(p, r.Root), "/")
}

// Feed processes one log line and returns the events it produced.
func (r *Replayer) Feed(line string) []Event {
	r.lineNo++
	c, ok := parseLine(line, r.pending)
	if !ok {
		return nil
	}
	if c.Entry {
		if c.Name == "close" && len(c.Args) >= 1 {
			if fd, err := strconv.Atoi(c.Args[0]); err == nil {
				delete(r.fds, fd)
			}
		}
		return nil
	}
	var evs []Event
	mut := func(call, path string, fd int) {
		r.Mutations++
		evs = append(evs, Event{Kind: "mutation", Call: call, Path: r.rel(path), Seq: r.Mutations, Fd: fd})
	}
	isUnlink := false
	switch c.Name {
	case "openat", "open", "creat":
		var p string
		var okp bool
		var flags string
		switch c.Name {
		case "openat":
			if len(c.Args) < 3 {
				return nil
			}
			p, okp = r.resolve(c.Args[0], c.Args[1])
			flags = c.Args[2]
		case "open":
			if len(c.Args) < 2 {
				return nil
			}
			p, okp = r.resolve("AT_FDCWD", c.Args[0])
			flags = c.Args[1]
		default:
			if len(c.Args) < 1 {
				return nil
			}
			p, okp = r.resolve("AT_FDCWD", c.Args[0])
			flags = "O_WRONLY|O_CREAT|O_TRUNC"
		}
		if !c.RetOK {
			return nil
		}
		if !okp {
			// a path we cannot resolve: remember the fd as unknown (outside)
			r.fds[int(c.Ret)] = &fdEnt{path: "?", inRoot: false}
			return nil
		}
		e := &fdEnt{path: p, inRoot: r.under(p), append: strings.Contains(flags, "O_APPEND")}
		if p == r.Ctl {
			e.inRoot = false
		}
		if e.inRoot {
			if r.dirs[p] || strings.Contains(flags, "O_DIRECTORY") {
				e.isDir = true
			} else {
				f := r.files[p]
				if f == nil {
					if strings.Contains(flags, "O_CREAT") {
						f = &file{}
						r.files[p] = f
						mut("create", p, int(c.Ret))
						if strings.HasSuffix(p, ".wal") {
							evs = append(evs, Event{Kind: "walcreate", Path: r.rel(p), Seq: r.Mutations})
						}
					} else {
						r.problem("open of unknown file %s without O_CREAT succeeded", p)
						f = &file{}
						r.files[p] = f
					}
				} else if strings.Contains(flags, "O_TRUNC") && len(f.data) > 0 {
					f.data = nil
					f.hash = ""
					mut("truncate-on-open", p, int(c.Ret))
				}
				e.f = f
			}
		}
		r.fds[int(c.Ret)] = e
	case "close":
		if len(c.Args) >= 1 && !c.Resumed {
			if fd, err := strconv.Atoi(c.Args[0]); err == nil {
				delete(r.fds, fd)
			}
		}
	case "write", "pwrite64":
		if len(c.Args) < 3 {
			return nil
		}
		fd, err := strconv.Atoi(c.Args[0])
		if err != nil {
			return nil
		}
		e := r.fds[fd]
		if e == nil {
			return nil
		}
		if e.path == r.Ctl {
			if b, _, ok := Unescape(c.Args[1]); ok && c.RetOK {
				for _, m := range strings.Split(strings.TrimSpace(string(b)), "\n") {
					evs = append(evs, Event{Kind: "marker", Marker: m})
				}
			}
			return evs
		}
		if !e.inRoot || e.f == nil {
			return nil
		}
		if !c.RetOK || c.Ret == 0 {
			return nil
		}
		b, trunc, ok := Unescape(c.Args[1])
		if !ok || trunc || int64(len(b)) < c.Ret {
			r.problem("write to %s: data not fully captured (have %d of %d bytes, truncated=%v)", e.path, len(b), c.Ret, trunc)
			return nil
		}
		b = b[:c.Ret]
		off := e.off
		if c.Name == "pwrite64" && len(c.Args) >= 4 {
			off, _ = strconv.ParseInt(c.Args[3], 0, 64)
		} else if e.append {
			off = int64(len(e.f.data))
		}
		if need := off + int64(len(b)); need > int64(len(e.f.data)) {
			e.f.data = append(e.f.data, make([]byte, need-int64(len(e.f.data)))...)
		}
		copy(e.f.data[off:], b)
		e.f.hash = ""
		if c.Name == "write" {
			e.off = off + int64(len(b))
		}
		e.dirty = true
		mut("write", e.path, fd)
	case "lseek":
		if len(c.Args) >= 1 && c.RetOK {
			if fd, err := strconv.Atoi(c.Args[0]); err == nil {
				if e := r.fds[fd]; e != nil {
					e.off = c.Ret
				}
			}
		}
	case "ftruncate":
		if len(c.Args) >= 2 && c.RetOK {
			fd, _ := strconv.Atoi(c.Args[0])
			n, _ := strconv.ParseInt(c.Args[1], 0, 64)
			if e := r.fds[fd]; e != nil && e.inRoot && e.f != nil {
				if n < int64(len(e.f.data)) {
					e.f.data = e.f.data[:n]
				} else {
					e.f.data = append(e.f.data, make([]byte, n-int64(len(e.f.data)))...)
				}
				e.f.hash = ""
				mut("ftruncate", e.path, fd)
			}
		}
	case "fsync", "fdatasync":
		if len(c.Args) >= 1 && c.RetOK {
			fd, _ := strconv.Atoi(c.Args[0])
			if e := r.fds[fd]; e != nil && e.inRoot {
				evs = append(evs, Event{Kind: "fsync", Path: r.rel(e.path), Fd: fd, Clean: !e.dirty})
				e.dirty = false
			}
		}
	case "rename", "renameat", "renameat2":
		var from, to string
		var ok1, ok2 bool
		if c.Name == "rename" && len(c.Args) >= 2 {
			from, ok1 = r.resolve("AT_FDCWD", c.Args[0])
			to, ok2 = r.resolve("AT_FDCWD", c.Args[1])
		} else if len(c.Args) >= 4 {
			from, ok1 = r.resolve(c.Args[0], c.Args[1])
			to, ok2 = r.resolve(c.Args[2], c.Args[3])
		}
		if !c.RetOK || !ok1 || !ok2 {
			return nil
		}
		if !r.under(from) && !r.under(to) {
			return nil
		}
		if r.dirs[from] {
			// move the whole subtree
			for p := range r.dirs {
				if p == from || strings.HasPrefix(p, from+"/") {
					delete(r.dirs, p)
					r.dirs[to+strings.TrimPrefix(p, from)] = true
				}
			}
			for p, f := range r.files {
				if strings.HasPrefix(p, from+"/") {
					delete(r.files, p)
					r.files[to+strings.TrimPrefix(p, from)] = f
				}
			}
			for _, e := range r.fds {
				if e.path == from || strings.HasPrefix(e.path, from+"/") {
					e.path = to + strings.TrimPrefix(e.path, from)
				}
			}
		} else if f := r.files[from]; f != nil {
			delete(r.files, from)
			r.files[to] = f
		} else {
			r.problem("rename of unknown path %s", from)
		}
		mut("rename", to, -1)
	case "unlink", "unlinkat", "rmdir":
		var p string
		var okp bool
		rmdir := c.Name == "rmdir"
		if c.Name == "unlinkat" && len(c.Args) >= 3 {
			p, okp = r.resolve(c.Args[0], c.Args[1])
			rmdir = strings.Contains(c.Args[2], "AT_REMOVEDIR")
		} else if len(c.Args) >= 1 {
			p, okp = r.resolve("AT_FDCWD", c.Args[0])
		}
		if !c.RetOK || !okp || !r.under(p) {
			return nil
		}
		if rmdir {
			delete(r.dirs, p)
			mut("rmdir", p, -1)
		} else {
			// Only unlinks relative to a directory descriptor belong to a run whose order is the directory's listing
			// order (that is how os.RemoveAll walks a directory). An unlink of an absolute path (os.Remove) is placed
			// by the program itself and is never permuted.
			listingOrdered := c.Name == "unlinkat" && len(c.Args) >= 1 && c.Args[0] != "AT_FDCWD"
			d := filepath.Dir(p)
			if d != r.lastUnlinkDir || !listingOrdered {
				r.UnlinkRun = nil
				r.UnlinkSaved = map[string][]byte{}
				r.lastUnlinkDir = d
			}
			f := r.files[p]
			if f == nil {
				r.problem("unlink of unknown file %s succeeded", p)
			}
			delete(r.files, p)
			if listingOrdered {
				if f != nil {
					r.UnlinkSaved[p] = f.data
				}
				isUnlink = true
				r.UnlinkRun = append(r.UnlinkRun, p)
			} else {
				r.lastUnlinkDir = ""
			}
			mut("unlink", p, -1)
		}
	case "mkdir", "mkdirat":
		var p string
		var okp bool
		if c.Name == "mkdirat" && len(c.Args) >= 2 {
			p, okp = r.resolve(c.Args[0], c.Args[1])
		} else if len(c.Args) >= 1 {
			p, okp = r.resolve("AT_FDCWD", c.Args[0])
		}
		if !c.RetOK || !okp || !r.under(p) {
			return nil
		}
		r.dirs[p] = true
		mut("mkdir", p, -1)
	case "dup", "dup2", "dup3", "writev", "pwritev", "truncate", "link", "linkat", "symlink", "symlinkat", "copy_file_range", "sendfile", "fallocate":
		if c.RetOK {
			r.problem("unsupported call %s(%s)", c.Name, strings.Join(c.Args, ", "))
		}
	}
	if len(evs) > 0 && !isUnlink {
		for _, e := range evs {
			if e.Kind == "mutation" {
				r.UnlinkRun = nil
				r.lastUnlinkDir = ""
				break
			}
		}
	}
	return evs
}

func (f *file) sum() string {
	if f.hash == "" {
		h := sha256.Sum256(f.data)
		f.hash = hex.EncodeToString(h[:8])
	}
	return f.hash
}

// Hash returns a content hash of the whole tree (paths + file contents + directories).
func (r *Replayer) Hash() string {
	var items []string
	for p, f := range r.files {
		items = append(items, "f:"+r.rel(p)+":"+f.sum())
	}
	for p := range r.dirs {
		items = append(items, "d:"+r.rel(p))
	}
	sort.Strings(items)
	h := sha256.New()
	for _, it := range items {
		io.WriteString(h, it)
		h.Write([]byte{0})
	}
	return hex.EncodeToString(h.Sum(nil)[:12])
}

// Materialise writes the current tree below dst. restore lists files (absolute model paths) that should be
// written back although they are currently unlinked (listing-order emulation); their content comes from saved.
func (r *Replayer) Materialise(dst string, extra map[string][]byte) error {
	var ds []string
	for p := range r.dirs {
		ds = append(ds, p)
	}
	sort.Strings(ds)
	for _, p := range ds {
		if err := os.MkdirAll(filepath.Join(dst, r.rel(p)), 0755); err != nil {
			return err
		}
	}
	for p, f := range r.files {
		t := filepath.Join(dst, r.rel(p))
		if err := os.MkdirAll(filepath.Dir(t), 0755); err != nil {
			return err
		}
		if err := os.WriteFile(t, f.data, 0644); err != nil {
			return err
		}
	}
	for p, b := range extra {
		t := filepath.Join(dst, r.rel(p))
		if err := os.MkdirAll(filepath.Dir(t), 0755); err != nil {
			return err
		}
		if err := os.WriteFile(t, b, 0644); err != nil {
			return err
		}
	}
	return nil
}

// Listing returns "path size" lines of the current tree (for diagnostics).
func (r *Replayer) Listing() []string {
	var out []string
	for p, f := range r.files {
		out = append(out, fmt.Sprintf("%s (%d)", r.rel(p), len(f.data)))
	}
	for p := range r.dirs {
		if p != r.Root {
			out = append(out, r.rel(p)+"/")
		}
	}
	sort.Strings(out)
	return out
}

// FileData returns a copy of a file's current content (nil if absent).
func (r *Replayer) FileData(abs string) []byte {
	if f := r.files[abs]; f != nil {
		return append([]byte{}, f.data...)
	}
	return nil
}

// CompareWithDisk compares the model with a real directory (fidelity self-check); returns differences.
func (r *Replayer) CompareWithDisk(dir string) []string {
	var diffs []string
	seen := map[string]bool{}
	_ = filepath.Walk(dir, func(p string, info os.FileInfo, err error) error {
		if err != nil {
			return nil
		}
		rel := strings.TrimPrefix(strings.TrimPrefix(p, dir), "/")
		abs := filepath.Join(r.Root, rel)
		if info.IsDir() {
			if !r.dirs[abs] {
				diffs = append(diffs, "dir on disk but not in model: "+rel)
			}
			seen[abs] = true
			return nil
		}
		seen[abs] = true
		f := r.files[abs]
		if f == nil {
			diffs = append(diffs, "file on disk but not in model: "+rel)
			return nil
		}
		b, _ := os.ReadFile(p)
		if string(b) != string(f.data) {
			diffs = append(diffs, fmt.Sprintf("content differs: %s (disk %d bytes, model %d bytes)", rel, len(b), len(f.data)))
		}
		return nil
	})
	for p := range r.files {
		if !seen[p] {
			diffs = append(diffs, "file in model but not on disk: "+r.rel(p))
		}
	}
	for p := range r.dirs {
		if !seen[p] && p != r.Root {
			diffs = append(diffs, "dir in model but not on disk: "+r.rel(p))
		}
	}
	sort.Strings(diffs)
	return diffs
}

// ReadLog feeds a whole log file line by line to fn (lines can be very long).
func ReadLog(path string, fn func(line string) error) error {
	f, err := os.Open(path)
	if err != nil {
		return err
	}
	defer f.Close()
	rd := bufio.NewReaderSize(f, 1<<20)
	for {
		line, err := rd.ReadString('\n')
		if len(line) > 0 {
			if e := fn(strings.TrimRight(line, "\n")); e != nil {
				return e
			}
		}
		if err != nil {
			if err == io.EOF {
				return nil
			}
			return err
		}
	}
}
