package props

import (
	"bytes"
	"errors"
	"fmt"
	"os"
	"path/filepath"
	"sort"

	"github.com/thomasjungblut/go-sstables/skiplist"
	"github.com/thomasjungblut/go-sstables/sstables"

	"verif/internal/fw"
	"verif/internal/gen"
	"verif/internal/rio"
)

// C09 — a damaged SSTable data file is detected, never served as different data.

func init() {
	fw.Register(&fw.Prop{
		ID: "C09",
		Meta: func(tier string) fw.Meta {
			n := 64
			if tier == "thorough" {
				n = 1600
			}
			return fw.Meta{N: n, Level: "fault_enumeration", Chunk: 2, CaseTimeoutS: 600, MinNT: 30,
				Rule:        "one case = one generated table (2..9 keys, one table in four incl. the empty key, values 1..60 bytes, some tables additionally carry empty and nil values; data compression none/gzip/snappy/lzw; index loader default/disk/skiplist/slice by case); damaged copies of its data file: every byte offset x {8 single-bit flips, 0x00, 0xFF, 0x91, 0x8d, 0x4c} (tables <= 2 KiB, seeded offsets + all header bytes beyond), every truncation length, every swap of two records. Each copy is read (a) with default options: open must fail or every Get/ScanRange/Scan step returns the written value; (b) with SkipHashCheckOnLoad+EnableHashCheckOnReads (both orders of the two options, before and after the other options): each Get/scan step errors or returns the written value. Every key is fetched twice in a row and once more after the scans on the same reader. A panic counts as a violation. Empty/nil values are only required to stay empty/nil under byte alterations of uncompressed (header-protected) tables. evaluations = damaged copies x 2 modes; non-trivial = table with >=2 non-empty values; distinct by table content hash Readers are opened with read buffers of 16, 64, 256, 4096 bytes or the default; every third damaged copy is also read as the NEWER member of a two-table stack (Get, Scan, ScanStartingAt, ScanRange): the older table's value must never be served for it.",
				MinObs:      map[string]int64{"stacked_scan_steps_over_a_damaged_newer_table": 1000, "damaged_copies": 20000, "rejected_at_open": 5000, "rejected_at_read": 2000, "served_original_value": 2000, "truncations": 2000, "record_swaps": 50, "tables_with_empty_or_nil_value": 5},
				Assumptions: []string{"a CRC32/CRC64 collision would be reported as a violation (probability negligible for the enumerated single-byte damage)"},
			}
		},
		Run: runC09,
	})
}

func runC09(c *fw.Case) {
	r := c.R
	dataComp := c.Idx % 4
	n := 2 + r.Intn(8)
	keys := gen.AscendingKeys(r, n, gen.Pick(r, 0, 1, 3))
	if r.Intn(4) == 0 && len(keys[0]) > 0 {
		keys[0] = []byte{} // the empty key is a legal key (every index loader hands it back as nil)
	}
	if len(keys[0]) == 0 {
		c.Obs("tables_with_the_empty_key", 1)
	}
	// one table in four has long, highly compressible keys (index records much shorter on disk than decoded) and a
	// compressed index
	idxComp := 0
	if r.Intn(4) == 0 || ((c.Idx/4)%4 == 1 && r.Intn(2) == 0) { // (more often under the disk index loader, which reads the index lazily)
		idxComp = 1 + r.Intn(3)
		for i := range keys {
			if len(keys[i]) > 0 && i%2 == 0 {
				keys[i] = append(append([]byte{}, keys[i]...), bytes.Repeat([]byte("abcd"), 60+r.Intn(60))...)
			}
		}
		sort.Slice(keys, func(i, j int) bool { return bytes.Compare(keys[i], keys[j]) < 0 })
		c.Obs("tables_with_long_keys_and_a_compressed_index", 1)
	}
	withEmpties := r.Intn(3) == 0
	var kvs []kv
	nonEmpty := 0
	for i, k := range keys {
		v := gen.Payload(r, 60)
		if len(v) == 0 {
			v = []byte{byte(i + 1)}
		}
		if withEmpties && r.Intn(3) == 0 {
			if r.Intn(2) == 0 {
				v = nil
			} else {
				v = []byte{}
			}
		}
		if len(v) > 0 {
			nonEmpty++
		}
		kvs = append(kvs, kv{k, v})
		c.HashAdd(k, v, v == nil)
	}
	c.HashAdd(dataComp, idxComp)
	if withEmpties {
		c.Obs("tables_with_empty_or_nil_value", 1)
	}
	tdir := filepath.Join(c.Dir, "t")
	_ = os.MkdirAll(tdir, 0755)
	w, err := sstables.NewSSTableStreamWriter(sstables.WriteBasePath(tdir), sstables.WithKeyComparator(skiplist.BytesComparator{}),
		sstables.DataCompressionType(dataComp), sstables.IndexCompressionType(idxComp), sstables.WriteBufferSizeBytes(4096))
	if err == nil {
		err = w.Open()
	}
	if err != nil {
		c.Violate("harness/writer", "%v", err)
		return
	}
	for _, e := range kvs {
		if err := w.WriteNext(e.k, e.v); err != nil {
			c.Violate("harness/write", "%v", err)
			return
		}
	}
	if err := w.Close(); err != nil {
		c.Violate("harness/close", "%v", err)
		return
	}
	// options belong to the reader they were given to. One child process in four (both cases of its chunk) never creates
	// a verify-on-read reader: it first opens the UNDAMAGED table as a trusted one (SkipHashCheckOnLoad alone), closes it,
	// and then reads the damaged copies in default mode only — they must be validated at load all the same
	defaultOnly := (c.Idx/2)%4 == 1
	if defaultOnly {
		trusted, terr := sstables.NewSSTableReader(sstables.ReadBasePath(tdir), sstables.ReadWithKeyComparator(skiplist.BytesComparator{}), sstables.SkipHashCheckOnLoad())
		if terr != nil {
			c.Violate("sstable/undamaged-table-refused/skip-on-load", "%v", terr)
			return
		}
		_, _ = trusted.Get(kvs[0].k)
		_ = trusted.Close()
		c.Obs("tables_read_in_default_mode_only_after_a_trusted_open_in_the_same_process", 1)
	}
	dataPath := filepath.Join(tdir, sstables.DataFileName)
	img, err := os.ReadFile(dataPath)
	if err != nil {
		c.Violate("harness/read", "%v", err)
		return
	}
	pf, err := rio.Parse(img)
	if err != nil || len(pf.Recs) != len(kvs) {
		c.Violate("harness/parse", "parser sees %d records want %d (%v)", len(pf.Recs), len(kvs), err)
		return
	}
	loaderName := []string{"default", "disk", "skiplist", "slice"}[(c.Idx/4)%4]
	c.Obs("tables_read_with_loader_"+loaderName, 1)
	cfg := fmt.Sprintf("dataComp=%d keys=%d dataBytes=%d emptiesOrNils=%v loader=%s", dataComp, len(kvs), len(img), withEmpties, loaderName)
	feat := ""
	if dataComp != 0 {
		feat = "/compressed"
	}
	units := int64(0)

	// acceptable: the value that may be returned for entry i without error
	curKind := ""
	acceptable := func(i int, got []byte) bool {
		want := kvs[i].v
		if len(want) > 0 {
			return sameRec(got, want)
		}
		// empty/nil values carry a zero checksum by format design: they are only required to stay empty/nil
		// when a byte inside an uncompressed (header-protected) record was altered
		if dataComp == 0 && curKind == "byte" {
			return len(got) == 0
		}
		return true
	}

	// an OLDER table with other values for the same keys: the damaged table is also read as the newer member of a stack —
	// damage must surface as an error there too, never as the older table's (plausible-looking, stale) value
	odir := filepath.Join(c.Dir, "older")
	_ = os.MkdirAll(odir, 0755)
	var older sstables.SSTableReaderI
	if ow, err := sstables.NewSSTableStreamWriter(sstables.WriteBasePath(odir), sstables.WithKeyComparator(skiplist.BytesComparator{})); err == nil && ow.Open() == nil {
		for i, e := range kvs {
			_ = ow.WriteNext(e.k, []byte(fmt.Sprintf("older-value-%d", i)))
		}
		if ow.Close() == nil {
			older, _ = sstables.NewSSTableReader(sstables.ReadBasePath(odir), sstables.ReadWithKeyComparator(skiplist.BytesComparator{}))
		}
	}
	if older != nil {
		defer older.Close()
	}
	copyNo := 0
	evalCopy := func(kind string, d []byte, what string) {
		curKind = kind
		copyNo++
		if err := os.WriteFile(dataPath, d, 0644); err != nil {
			c.Violate("harness/write-dmg", "%v", err)
			return
		}
		for mode := 0; mode < 2; mode++ {
			if defaultOnly && mode == 1 {
				continue
			}
			units++
			func() {
				mname := "verify-on-load"
				defer func() {
					if p := recover(); p != nil {
						c.Violate("sstable-damage/panic/"+kind+"/"+mname+feat, "%s %s: panic %v", cfg, what, p)
					}
				}()
				opts := []sstables.ReadOption{sstables.ReadBasePath(tdir), sstables.ReadWithKeyComparator(skiplist.BytesComparator{})}
				// the read buffer is smaller than the data file for most copies (and the library default for the rest)
				if rb := []int{4096, 16, 64, 0, 256}[copyNo%5]; rb != 0 {
					opts = append(opts, sstables.ReadBufferSizeBytes(rb))
				}
				switch loaderName {
				case "disk":
					opts = append(opts, sstables.ReadIndexLoader(&sstables.DiskIndexLoader{}))
				case "skiplist":
					opts = append(opts, sstables.ReadIndexLoader(&sstables.SkipListIndexLoader{KeyComparator: skiplist.BytesComparator{}, ReadBufferSize: 4096}))
				case "slice":
					opts = append(opts, sstables.ReadIndexLoader(&sstables.SliceKeyIndexLoader{ReadBufferSize: 4096}))
				}
				if mode == 1 {
					mname = "verify-on-read"
					// options are a set: both spellings of the combination, and both positions relative to the other options
					switch copyNo % 4 {
					case 0:
						opts = append(opts, sstables.SkipHashCheckOnLoad(), sstables.EnableHashCheckOnReads())
					case 1:
						opts = append(opts, sstables.EnableHashCheckOnReads(), sstables.SkipHashCheckOnLoad())
					case 2:
						opts = append([]sstables.ReadOption{sstables.EnableHashCheckOnReads(), sstables.SkipHashCheckOnLoad()}, opts...)
					default:
						opts = append([]sstables.ReadOption{sstables.SkipHashCheckOnLoad()}, append(opts, sstables.EnableHashCheckOnReads())...)
					}
				}
				rd, err := sstables.NewSSTableReader(opts...)
				if err != nil {
					c.Obs("rejected_at_open", 1)
					return
				}
				defer rd.Close()
				bad := func(access string, i int, got []byte) {
					c.Violate("sstable-damage/different-value-served/"+kind+"/"+mname+"/"+access+feat,
						"%s %s [%s]: %s of key %x returned %s without error; written value %s", cfg, what, mname, access, kvs[i].k, fw.Hex(got), fw.Hex(kvs[i].v))
				}
				// every key is fetched twice in a row (a caller retrying after an error must not be served the damaged
				// bytes the second time) and once more after the scans: the verdict of a reader must not depend on
				// what it was asked before
				getAll := func(access string, times int) bool {
					for i, e := range kvs {
						for t := 0; t < times; t++ {
							got, err := rd.Get(e.k)
							if err != nil {
								c.Obs("rejected_at_read", 1)
								continue
							}
							if !acceptable(i, got) {
								if t > 0 {
									access += "-repeated"
								}
								bad(access, i, got)
								return false
							}
							c.Obs("served_original_value", 1)
						}
					}
					return true
				}
				if !getAll("Get", 2) {
					return
				}
				if older != nil && copyNo%3 == 0 {
					// (a reader keeps every full scan's file handle and buffer until it is closed: the older table gets a reader
					// of its own per stack, with a small buffer, instead of one that lives as long as the case)
					olderRd, oerr := sstables.NewSSTableReader(sstables.ReadBasePath(odir), sstables.ReadWithKeyComparator(skiplist.BytesComparator{}), sstables.ReadBufferSizeBytes(4096))
					if oerr != nil {
						c.Violate("harness/open-older-table", "%v", oerr)
						return
					}
					defer olderRd.Close()
					super := sstables.NewSuperSSTableReader([]sstables.SSTableReaderI{olderRd, rd}, skiplist.BytesComparator{})
					for i, e := range kvs {
						got, err := super.Get(e.k)
						if err != nil {
							continue
						}
						c.Obs("stacked_gets_over_a_damaged_newer_table", 1)
						if !acceptable(i, got) {
							bad("stacked-Get", i, got)
							return
						}
					}
					// ... and the stacked scans: whatever they hand out for a key is the newer table's written value
					for pass := 0; pass < 3; pass++ {
						var it sstables.SSTableIteratorI
						var err error
						access := []string{"stacked-Scan", "stacked-ScanStartingAt", "stacked-ScanRange"}[pass]
						switch pass {
						case 0:
							it, err = super.Scan()
						case 1:
							it, err = super.ScanStartingAt(kvs[0].k)
						default:
							it, err = super.ScanRange(kvs[0].k, kvs[len(kvs)-1].k)
						}
						if err != nil {
							continue
						}
						for {
							k, v, err := it.Next()
							if err != nil {
								break
							}
							idx := -1
							for i := range kvs {
								if string(kvs[i].k) == string(k) {
									idx = i
								}
							}
							if idx < 0 {
								c.Violate("sstable-damage/scan-wrong-key/"+kind+"/"+mname+"/"+access+feat, "%s %s [%s]: %s returned key %x, which is in no table", cfg, what, mname, access, k)
								return
							}
							c.Obs("stacked_scan_steps_over_a_damaged_newer_table", 1)
							if !acceptable(idx, v) {
								bad(access, idx, v)
								return
							}
						}
					}
				}
				defer func() {
					if !c.Violated() {
						getAll("Get-after-scans", 1)
					}
				}()
				for pass := 0; pass < 2; pass++ {
					var it sstables.SSTableIteratorI
					var err error
					access := "Scan"
					if pass == 0 {
						it, err = rd.Scan()
					} else {
						access = "ScanRange"
						it, err = rd.ScanRange(kvs[0].k, kvs[len(kvs)-1].k)
					}
					if err != nil {
						c.Obs("rejected_at_read", 1)
						continue
					}
					for i := 0; i <= len(kvs); i++ {
						k, v, err := it.Next()
						if err != nil {
							if !errors.Is(err, sstables.Done) {
								c.Obs("rejected_at_read", 1)
							} else if i < len(kvs) {
								// iterator ended early without an error: entries silently missing
								c.Violate("sstable-damage/scan-ended-early/"+kind+"/"+mname+"/"+access+feat, "%s %s [%s]: %s ended after %d of %d entries without error", cfg, what, mname, access, i, len(kvs))
							}
							break
						}
						if i >= len(kvs) || string(k) != string(kvs[i].k) {
							c.Violate("sstable-damage/scan-wrong-key/"+kind+"/"+mname+"/"+access+feat, "%s %s [%s]: %s step %d returned key %x", cfg, what, mname, access, i, k)
							return
						}
						if !acceptable(i, v) {
							bad(access, i, v)
							return
						}
					}
				}
			}()
		}
		c.Obs("damaged_copies", 1)
	}

	// byte damage
	var offs []int
	if len(img) <= 2048 {
		for o := 0; o < len(img); o++ {
			offs = append(offs, o)
		}
	} else {
		set := map[int]bool{}
		for _, pr := range pf.Recs {
			for o := pr.Start; o < pr.PayloadOff; o++ {
				set[o] = true
			}
		}
		for i := 0; i < 600; i++ {
			set[r.Intn(len(img))] = true
		}
		for o := range set {
			offs = append(offs, o)
		}
	}
	for _, o := range offs {
		if c.Violated() {
			break
		}
		orig := img[o]
		vals := map[byte]bool{0x00: true, 0xff: true, 0x91: true, 0x8d: true, 0x4c: true}
		for b := 0; b < 8; b++ {
			vals[orig^(1<<b)] = true
		}
		delete(vals, orig)
		for v := range vals {
			d := append([]byte{}, img...)
			d[o] = v
			evalCopy("byte", d, fmt.Sprintf("byte %d %02x->%02x", o, orig, v))
			if c.Violated() {
				break
			}
		}
	}
	// truncations
	for L := 0; L < len(img) && !c.Violated(); L++ {
		evalCopy("truncate", img[:L], fmt.Sprintf("cut at %d (record boundaries: %v)", L, recStarts(pf)))
		c.Obs("truncations", 1)
	}
	// record swaps
	for i := 0; i < len(pf.Recs) && !c.Violated(); i++ {
		for j := i + 1; j < len(pf.Recs) && !c.Violated(); j++ {
			a, b := pf.Recs[i], pf.Recs[j]
			var d []byte
			d = append(d, img[:a.Start]...)
			d = append(d, img[b.Start:b.End()]...)
			d = append(d, img[a.End():b.Start]...)
			d = append(d, img[a.Start:a.End()]...)
			d = append(d, img[b.End():]...)
			if string(d) == string(img) {
				continue
			}
			evalCopy("swap", d, fmt.Sprintf("records %d and %d swapped", i, j))
			c.Obs("record_swaps", 1)
		}
	}
	// the undamaged file must be served completely (sanity of the evaluator)
	if !c.Violated() {
		_ = os.WriteFile(dataPath, img, 0644)
		rd, err := sstables.NewSSTableReader(sstables.ReadBasePath(tdir), sstables.ReadWithKeyComparator(skiplist.BytesComparator{}))
		if err != nil {
			c.Violate("sstable-damage/undamaged-rejected", "%s: %v", cfg, err)
		} else {
			for _, e := range kvs {
				if v, err := rd.Get(e.k); err != nil || !sameRec(v, e.v) {
					c.Violate("sstable-damage/undamaged-wrong", "%s: Get(%x)=(%s,%v)", cfg, e.k, fw.Hex(v), err)
				}
			}
			_ = rd.Close()
		}
	}
	nt := int64(0)
	if nonEmpty >= 2 {
		c.Nontrivial()
		nt = 1
	}
	c.SetUnits(units, nt)
	if c.Idx%16 == 0 {
		c.Sample(map[string]any{"config": cfg, "first_pair": fmt.Sprintf("%x=%s", kvs[0].k, fw.Hex(kvs[0].v)), "damaged_copies_x_modes": units})
	}
}

func recStarts(pf *rio.File) []int {
	var s []int
	for _, r := range pf.Recs {
		s = append(s, r.Start)
	}
	return s
}
