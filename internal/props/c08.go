package props

import (
	"bytes"
	"errors"
	"fmt"
	"os"
	"path/filepath"
	"sort"

	"github.com/thomasjungblut/go-sstables/skiplist"
	"github.com/thomasjungblut/go-sstables/sstables"

	"verif/internal/fw"
	"verif/internal/gen"
)

// C08 — merging or stacking tables equals the latest-wins union of their contents.

func init() {
	fw.Register(&fw.Prop{
		ID: "C08",
		Meta: func(tier string) fw.Meta {
			n := 700
			if tier == "thorough" {
				n = 25000
			}
			return fw.Meta{N: n, Level: "exploration", Chunk: 10, CaseTimeoutS: 300, MinNT: 150,
				Rule:        "one case = a stack of 1..6 real tables over a universe of 3..30 keys (optionally incl. the empty key) with arbitrarily overlapping key sets, unique values per (table,key), tombstones (nil) over values and values over tombstones, some empty values, empty tables; index loader default/disk/skiplist/slice by case, half of the skip-list-loader stacks ordered by a DESCENDING comparator (writer, loader, stacked reader and merger all get it); model = apply tables oldest->newest. Checked: stacked Get/Contains on all keys+neighbours, Scan, ScanStartingAt and ScanRange for probe samples, pairs of scans alive at the same time (lock-step and later-drained-first), MergeCompact with both provided reductions into a real writer (read back), MergeCompactIterator, and plain Merge on a disjoint re-partition. Non-trivial: >=3 tables sharing >=1 key with differing values and >=1 tombstone-over-value; distinct by content hash Half of the stacks are written with compressed index files (and a random data compression); one key family is long (43+ bytes) and compresses well.",
				MinObs:      map[string]int64{"stacks_with_compressed_index_files": 50, "stacked_gets": 10000, "stacked_scans": 3000, "compacting_merges": 500, "plain_merges": 200, "stacks_with_empty_key": 50, "tombstone_over_value": 500, "value_over_tombstone": 300, "same_key_in_3plus_tables": 300, "stacks_ordered_by_a_descending_comparator": 30, "simultaneous_scan_pairs": 500},
				Assumptions: []string{"tombstone = nil value; the skip-tombstones reduction additionally drops empty values (as documented)", "a merged table is compared after filtering nil values from its read-back, so both 'tombstones dropped' and 'tombstones kept' outputs are accepted for the latest-wins reduction"},
			}
		},
		Run: runC08,
	})
}

// descCmp orders byte keys descending: a consistent comparator whose order differs from the byte-wise one
type descCmp struct{}

func (descCmp) Compare(a, b []byte) int { return bytes.Compare(b, a) }

// c08Cmp is the key comparator of all tables of a case
var c08Cmp skiplist.Comparator[[]byte] = skiplist.BytesComparator{}

func c08WriteTable(dir string, kvs []kv) error {
	if err := os.MkdirAll(dir, 0755); err != nil {
		return err
	}
	w, err := sstables.NewSSTableStreamWriter(sstables.WriteBasePath(dir), sstables.WithKeyComparator(c08Cmp), sstables.WriteBufferSizeBytes(4096),
		sstables.IndexCompressionType(c08IdxComp), sstables.DataCompressionType(c08DataComp))
	if err != nil {
		return err
	}
	if err := w.Open(); err != nil {
		return err
	}
	for _, e := range kvs {
		if err := w.WriteNext(e.k, e.v); err != nil {
			_ = w.Close()
			return err
		}
	}
	return w.Close()
}

// c08Loader selects the index loader of all tables of a case ("" = default)
var c08Loader = ""

// c08IdxComp / c08DataComp: compression of the index and data files of all tables of a case
var c08IdxComp, c08DataComp = 0, 0

func c08Open(dir string) (sstables.SSTableReaderI, error) {
	opts := []sstables.ReadOption{sstables.ReadBasePath(dir), sstables.ReadWithKeyComparator(c08Cmp)}
	switch c08Loader {
	case "disk":
		opts = append(opts, sstables.ReadIndexLoader(&sstables.DiskIndexLoader{}))
	case "skiplist":
		opts = append(opts, sstables.ReadIndexLoader(&sstables.SkipListIndexLoader{KeyComparator: c08Cmp, ReadBufferSize: 4096}))
	case "slice":
		opts = append(opts, sstables.ReadIndexLoader(&sstables.SliceKeyIndexLoader{ReadBufferSize: 4096}))
	}
	return sstables.NewSSTableReader(opts...)
}

func runC08(c *fw.Case) {
	r := c.R
	c08Loader = []string{"", "disk", "skiplist", "slice"}[c.Idx%4] // cases of one child run sequentially
	c.Obs("stacks_with_loader_"+map[string]string{"": "default"}[c08Loader]+c08Loader, 1)
	c.HashAdd("loader", c08Loader)
	// half of the stacks have compressed index files (an index entry can then be shorter on disk than its key)
	c08IdxComp, c08DataComp = gen.Pick(r, 0, 0, 0, 1, 2, 3), gen.Pick(r, 0, 0, 1, 2, 3)
	if c08IdxComp != 0 {
		c.Obs("stacks_with_compressed_index_files", 1)
	}
	c.HashAdd("comp", c08IdxComp, c08DataComp)
	// half of the stacks read through the skip-list loader (the one that takes a comparator) are ordered DESCENDING
	c08Cmp = skiplist.BytesComparator{}
	fold := false
	if c08Loader == "skiplist" {
		switch r.Intn(3) {
		case 0:
			c08Cmp = descCmp{}
			c.Obs("stacks_ordered_by_a_descending_comparator", 1)
			c.HashAdd("desc")
		case 1:
			// equality coarser than byte equality: the tables spell the same key in different cases
			c08Cmp = foldCmp{}
			fold = true
			c.Obs("stacks_ordered_by_a_case_folding_comparator", 1)
			c.HashAdd("fold")
		}
	}
	if _, isBytes := c08Cmp.(skiplist.BytesComparator); isBytes && r.Intn(2) == 0 {
		// same order as the byte order, but the results are differences, not -1/0/+1 (writer, readers, stack and merger get it)
		c08Cmp = memcmpCmp{}
		c.Obs("stacks_under_a_difference_valued_comparator", 1)
		c.HashAdd("memcmp")
	}
	kc := func(a, b []byte) int { return c08Cmp.Compare(a, b) }
	// normKey maps a key to the representative under which the model files it (identity unless the comparator folds case)
	normKey := func(k []byte) []byte {
		if fold {
			return asciiLower(k)
		}
		return k
	}
	nkvs := func(l []kv) []kv {
		if !fold {
			return l
		}
		out := make([]kv, len(l))
		for i, e := range l {
			out[i] = kv{asciiLower(e.k), e.v}
		}
		return out
	}
	nk := 3 + r.Intn(28)
	universe := gen.AscendingKeys(r, nk, gen.Pick(r, 0, 1, 2, 3, 4)) // family 2: long keys that compress well
	hasEmptyKey := false
	if r.Intn(4) == 0 {
		if len(universe[0]) != 0 {
			universe = append([][]byte{{}}, universe...)
		}
	}
	if len(universe[0]) == 0 {
		hasEmptyKey = true
	}
	if fold {
		seen := map[string]bool{}
		var u [][]byte
		for i, k := range universe {
			if len(k) > 0 {
				k = asciiLower(append(append([]byte{}, k...), byte('a'+i%26)))
			}
			if !seen[string(k)] {
				seen[string(k)] = true
				u = append(u, k)
			}
		}
		universe = u
	}
	sort.SliceStable(universe, func(i, j int) bool { return kc(universe[i], universe[j]) < 0 })
	nt := 1 + r.Intn(6)
	tables := make([][]kv, nt)
	model := map[string][]byte{}
	inModel := map[string]bool{}
	occ := map[string]int{}
	tov, vot := 0, 0
	for t := 0; t < nt; t++ {
		p := gen.Pick(r, 0.0, 0.2, 0.5, 0.8, 1.0)
		for _, k := range universe {
			if r.Float64() >= p {
				continue
			}
			var v []byte
			switch r.Intn(6) {
			case 0, 1:
				v = nil
			case 2:
				if r.Intn(3) == 0 {
					v = []byte{}
				} else {
					v = []byte(fmt.Sprintf("T%d/%x", t, k))
				}
			default:
				v = []byte(fmt.Sprintf("T%d/%x/%d", t, k, r.Intn(1000)))
			}
			if inModel[string(k)] {
				if v == nil && model[string(k)] != nil {
					tov++
				}
				if v != nil && model[string(k)] == nil {
					vot++
				}
			}
			wk := k
			if fold && r.Intn(2) == 0 {
				wk = asciiUpper(k) // this table spells the key differently
			}
			tables[t] = append(tables[t], kv{wk, v})
			model[string(k)] = v
			inModel[string(k)] = true
			occ[string(k)]++
			c.HashAdd(t, k, v, v == nil)
		}
		c.HashAdd("|")
	}
	// one byte-ordered stack in six stands on a table of the LEGACY format (a fixture of the repository: no metadata
	// file, so it reports zero records) as its oldest member
	var legacy sstables.SSTableReaderI
	if rd := os.Getenv("VERIF_REPO_DIR"); rd != "" && !fold && c08Loader != "disk" {
		_, isBytes := c08Cmp.(skiplist.BytesComparator)
		_, isMemcmp := c08Cmp.(memcmpCmp)
		if (isBytes || isMemcmp) && r.Intn(6) == 0 {
			dst := filepath.Join(c.Dir, "t-legacy")
			if copyDir(filepath.Join(rd, "sstables", "test_files", "v0_compat", "SimpleWriteHappyPathSSTable"), dst) == nil {
				if lr, err := c08Open(dst); err == nil {
					if it, err := lr.Scan(); err == nil {
						if lk, err := drainSST(it, 100000); err == nil {
							for _, e := range lk {
								universe = append(universe, e.k)
								if !inModel[string(e.k)] {
									model[string(e.k)] = e.v
									inModel[string(e.k)] = true
								}
								occ[string(e.k)]++
							}
							legacy = lr
							c.Obs("stacks_on_a_legacy_format_table", 1)
							c.HashAdd("legacy")
						}
					}
					if legacy == nil {
						_ = lr.Close()
					}
				}
			}
		}
	}
	in3 := 0
	for _, n := range occ {
		if n >= 3 {
			in3++
		}
	}
	c.Obs("tombstone_over_value", int64(tov))
	c.Obs("value_over_tombstone", int64(vot))
	c.Obs("same_key_in_3plus_tables", int64(in3))
	emptyKeyPresent := hasEmptyKey && inModel[""]
	if emptyKeyPresent {
		c.Obs("stacks_with_empty_key", 1)
	}
	feat := ""
	if emptyKeyPresent {
		feat = "/empty-key-present"
	}
	var sortedKeys []string
	for k := range model {
		sortedKeys = append(sortedKeys, k)
	}
	sort.Slice(sortedKeys, func(i, j int) bool { return kc([]byte(sortedKeys[i]), []byte(sortedKeys[j])) < 0 })
	// expected scan content: tombstoned keys omitted
	var live []kv
	for _, k := range sortedKeys {
		if model[k] != nil {
			live = append(live, kv{[]byte(k), model[k]})
		}
	}
	desc := fmt.Sprintf("tables=%d universe=%d emptyKey=%v sizes=%v", nt, len(universe), emptyKeyPresent, func() []int {
		var s []int
		for _, t := range tables {
			s = append(s, len(t))
		}
		return s
	}())

	var readers []sstables.SSTableReaderI
	if legacy != nil {
		readers = append(readers, legacy)
	}
	closeAll := func() {
		for _, rd := range readers {
			_ = rd.Close()
		}
	}
	for t := range tables {
		d := filepath.Join(c.Dir, fmt.Sprintf("t%d", t))
		if err := c08WriteTable(d, tables[t]); err != nil {
			c.Violate("harness/write-table", "%v", err)
			return
		}
		rd, err := c08Open(d)
		if err != nil {
			c.Violate("harness/open-table", "%v", err)
			closeAll()
			return
		}
		readers = append(readers, rd)
	}
	defer closeAll()
	cmp := c08Cmp
	super := sstables.NewSuperSSTableReader(readers, cmp)

	// probes
	probeSet := map[string]bool{"": true, "\xff\xff\xff\xff\xff": true}
	for _, k := range universe {
		probeSet[string(k)] = true
		for _, nb := range gen.Neighbours(k) {
			probeSet[string(nb)] = true
		}
	}
	var probes [][]byte
	for p := range probeSet {
		probes = append(probes, []byte(p))
	}
	sort.Slice(probes, func(i, j int) bool { return kc(probes[i], probes[j]) < 0 })
	for _, p := range probes {
		if fold {
			// point lookups go through byte-keyed bloom filters: a comparator whose equality is coarser than byte equality is
			// only meaningful for the ordered paths (scans, merges), which group keys by the comparator
			break
		}
		c.Obs("stacked_gets", 1)
		want, ok := model[string(normKey(p))]
		has, err := super.Contains(p)
		if err != nil || has != ok {
			c.Violate("stack/contains"+feat, "%s: Contains(%s)=(%v,%v) want %v", desc, fw.Hex(p), has, err, ok)
			return
		}
		v, err := super.Get(p)
		if !ok {
			if !errors.Is(err, sstables.NotFound) {
				c.Violate("stack/get-absent"+feat, "%s: Get(absent %s)=(%s,%v) want NotFound", desc, fw.Hex(p), fw.Hex(v), err)
				return
			}
			continue
		}
		if err != nil || !sameRec(v, want) {
			sig := "stack/get-wrong-value"
			if want == nil {
				sig = "stack/get-tombstoned-key-not-nil"
			}
			c.Violate(sig+feat, "%s: Get(%s)=(%s,%v) want %s (value of the newest table containing it)", desc, fw.Hex(p), fw.Hex(v), err, fw.Hex(want))
			return
		}
	}
	cmpScan := func(what string, it sstables.SSTableIteratorI, err error, want []kv, sigbase string) bool {
		if err != nil {
			c.Violate(sigbase+"-error"+feat, "%s: %s: %v", desc, what, err)
			return false
		}
		got, err := drainSST(it, len(universe)*nt+2)
		if err != nil {
			c.Violate(sigbase+"-iter-error"+feat, "%s: %s: %v", desc, what, err)
			return false
		}
		got = nkvs(got)
		if d := sameKVs(got, want); d != "" {
			sig := sigbase + "-mismatch"
			// discriminate: a value attributed to a different key
			for _, g := range got {
				if w, ok := model[string(g.k)]; ok && g.v != nil && !sameRec(g.v, w) {
					sig = sigbase + "-value-attributed-to-wrong-key-or-table"
					break
				}
			}
			c.Violate(sig+feat, "%s: %s: %s\n got: %s\nwant: %s", desc, what, d, fmtKVs(got), fmtKVs(want))
			return false
		}
		return true
	}
	rng := func(lo, hi []byte, useHi bool) []kv {
		var out []kv
		for _, e := range live {
			if kc(e.k, lo) >= 0 && (!useHi || kc(e.k, hi) <= 0) {
				out = append(out, e)
			}
		}
		return out
	}
	it, err := super.Scan()
	c.Obs("stacked_scans", 1)
	if !cmpScan("stacked Scan()", it, err, live, "stack/scan") {
		return
	}
	// two scans of the same stack alive at the same time, drained in lock step: neither may disturb the other
	{
		itA, errA := super.Scan()
		itB, errB := super.ScanStartingAt(probes[0])
		c.Obs("stacked_scans", 2)
		if errA != nil || errB != nil {
			c.Violate("stack/scan-error"+feat, "%s: two simultaneous scans: %v / %v", desc, errA, errB)
			return
		}
		var gotA, gotB []kv
		doneA, doneB := false, false
		for n := 0; !(doneA && doneB) && n < 2*len(universe)*nt+8; n++ {
			step := func(it sstables.SSTableIteratorI, got *[]kv, done *bool, which string) bool {
				if *done {
					return true
				}
				k, v, err := it.Next()
				if errors.Is(err, sstables.Done) {
					*done = true
					return true
				}
				if err != nil {
					c.Violate("stack/simultaneous-scans-iter-error"+feat, "%s: scan %s of two simultaneous scans failed after %d entries: %v", desc, which, len(*got), err)
					return false
				}
				*got = append(*got, kv{append([]byte{}, k...), append([]byte(nil), v...)})
				if v != nil && (*got)[len(*got)-1].v == nil {
					(*got)[len(*got)-1].v = []byte{}
				}
				return true
			}
			if !step(itA, &gotA, &doneA, "A") || !step(itB, &gotB, &doneB, "B") {
				return
			}
		}
		wantB := rng(probes[0], nil, false)
		gotA, gotB = nkvs(gotA), nkvs(gotB)
		if d := sameKVs(gotA, live); d != "" {
			c.Violate("stack/simultaneous-scans-mismatch"+feat, "%s: first of two simultaneous scans: %s", desc, d)
			return
		}
		if d := sameKVs(gotB, wantB); d != "" {
			c.Violate("stack/simultaneous-scans-mismatch"+feat, "%s: second of two simultaneous scans: %s", desc, d)
			return
		}
		// and two FULL scans side by side
		it1, err1 := super.Scan()
		it2, err2 := super.Scan()
		if err1 != nil || err2 != nil {
			c.Violate("stack/scan-error"+feat, "%s: two simultaneous full scans: %v / %v", desc, err1, err2)
			return
		}
		g2, e2 := drainSST(it2, len(universe)*nt+2)
		g1, e1 := drainSST(it1, len(universe)*nt+2)
		if e1 != nil || e2 != nil {
			c.Violate("stack/simultaneous-scans-iter-error"+feat, "%s: two full scans opened together, the later drained first: %v / %v", desc, e1, e2)
			return
		}
		g1, g2 = nkvs(g1), nkvs(g2)
		if d := sameKVs(g1, live) + sameKVs(g2, live); d != "" {
			c.Violate("stack/simultaneous-scans-mismatch"+feat, "%s: two full scans opened together: %s", desc, d)
			return
		}
		c.Obs("simultaneous_scan_pairs", 2)
	}
	for i := 0; i < 8; i++ {
		p := probes[r.Intn(len(probes))]
		it, err := super.ScanStartingAt(p)
		c.Obs("stacked_scans", 1)
		if !cmpScan(fmt.Sprintf("stacked ScanStartingAt(%s)", fw.Hex(p)), it, err, rng(p, nil, false), "stack/scan-starting-at") {
			return
		}
	}
	for i := 0; i < 12; i++ {
		lo := probes[r.Intn(len(probes))]
		hi := probes[r.Intn(len(probes))]
		if kc(lo, hi) > 0 {
			lo, hi = hi, lo
		}
		it, err := super.ScanRange(lo, hi)
		c.Obs("stacked_scans", 1)
		if !cmpScan(fmt.Sprintf("stacked ScanRange(%s,%s)", fw.Hex(lo), fw.Hex(hi)), it, err, rng(lo, hi, true), "stack/scan-range") {
			return
		}
	}

	// compacting merges through the real merger into a real writer
	merger := sstables.NewSSTableMerger(cmp)
	for variant := 0; variant < 2; variant++ {
		var iters []sstables.SSTableMergeIteratorContext
		for i, rd := range readers {
			sc, err := rd.Scan()
			if err != nil {
				c.Violate("harness/scan", "%v", err)
				return
			}
			iters = append(iters, sstables.NewMergeIteratorContext(i, sc))
		}
		reduce := sstables.ScanReduceLatestWins
		name := "latest-wins"
		want := live
		if variant == 1 {
			reduce = sstables.ScanReduceLatestWinsSkipTombstones
			name = "latest-wins-skip-tombstones"
			want = nil
			for _, e := range live {
				if len(e.v) > 0 {
					want = append(want, e)
				}
			}
		}
		out := filepath.Join(c.Dir, "merged-"+name)
		_ = os.MkdirAll(out, 0755)
		w, err := sstables.NewSSTableStreamWriter(sstables.WriteBasePath(out), sstables.WithKeyComparator(cmp))
		if err != nil {
			c.Violate("harness/writer", "%v", err)
			return
		}
		if err := w.Open(); err != nil {
			c.Violate("harness/writer-open", "%v", err)
			return
		}
		merr := merger.MergeCompact(iters, w, reduce)
		cerr := w.Close()
		c.Obs("compacting_merges", 1)
		if merr != nil || cerr != nil {
			c.Violate("merge/compact-error/"+name+feat, "%s: MergeCompact(%s) failed without any injected fault: %v / close %v", desc, name, merr, cerr)
			return
		}
		mr, err := c08Open(out)
		if err != nil {
			c.Violate("merge/compact-output-unreadable/"+name+feat, "%s: %v", desc, err)
			return
		}
		sc, err := mr.Scan()
		var got []kv
		if err == nil {
			got, err = drainSST(sc, len(universe)*nt+2)
		}
		_ = mr.Close()
		if err != nil {
			c.Violate("merge/compact-output-scan/"+name+feat, "%s: %v", desc, err)
			return
		}
		got = nkvs(got)
		var gotLive []kv
		for _, g := range got {
			if g.v != nil {
				gotLive = append(gotLive, g)
			} else if w, ok := model[string(g.k)]; !ok || w != nil {
				c.Violate("merge/compact-spurious-tombstone/"+name+feat, "%s: merged table has a tombstone for key %s whose newest value is %s", desc, fw.Hex(g.k), fw.Hex(w))
				return
			}
		}
		if d := sameKVs(gotLive, want); d != "" {
			sig := "merge/compact-mismatch/"
			for _, g := range gotLive {
				if w, ok := model[string(g.k)]; ok && !sameRec(g.v, w) {
					sig = "merge/compact-value-attributed-to-wrong-key-or-table/"
					break
				}
			}
			c.Violate(sig+name+feat, "%s: MergeCompact(%s): %s\n got: %s\nwant: %s", desc, name, d, fmtKVs(gotLive), fmtKVs(want))
			return
		}
	}
	// plain merge on a disjoint re-partition of the union (values incl. tombstones must all survive)
	{
		parts := 1 + r.Intn(4)
		dis := make([][]kv, parts)
		var all []kv
		for _, k := range sortedKeys {
			e := kv{[]byte(k), model[k]}
			all = append(all, e)
			p := r.Intn(parts)
			dis[p] = append(dis[p], e)
		}
		var iters []sstables.SSTableMergeIteratorContext
		var drs []sstables.SSTableReaderI
		for i := range dis {
			d := filepath.Join(c.Dir, fmt.Sprintf("d%d", i))
			if err := c08WriteTable(d, dis[i]); err != nil {
				c.Violate("harness/write-table", "%v", err)
				return
			}
			rd, err := c08Open(d)
			if err != nil {
				c.Violate("harness/open-table", "%v", err)
				return
			}
			drs = append(drs, rd)
			sc, _ := rd.Scan()
			iters = append(iters, sstables.NewMergeIteratorContext(i, sc))
		}
		out := filepath.Join(c.Dir, "merged-plain")
		_ = os.MkdirAll(out, 0755)
		w, _ := sstables.NewSSTableStreamWriter(sstables.WriteBasePath(out), sstables.WithKeyComparator(cmp))
		_ = w.Open()
		merr := merger.Merge(iters, w)
		cerr := w.Close()
		for _, rd := range drs {
			_ = rd.Close()
		}
		c.Obs("plain_merges", 1)
		if merr != nil || cerr != nil {
			c.Violate("merge/plain-error"+feat, "%s: Merge of %d disjoint inputs failed: %v / %v", desc, parts, merr, cerr)
			return
		}
		mr, err := c08Open(out)
		if err != nil {
			c.Violate("merge/plain-output-unreadable"+feat, "%s: %v", desc, err)
			return
		}
		sc, err := mr.Scan()
		var got []kv
		if err == nil {
			got, err = drainSST(sc, len(all)+2)
		}
		_ = mr.Close()
		if err != nil {
			c.Violate("merge/plain-output-scan"+feat, "%s: %v", desc, err)
			return
		}
		if d := sameKVs(got, all); d != "" {
			c.Violate("merge/plain-mismatch"+feat, "%s: Merge of %d disjoint inputs: %s\n got: %s\nwant: %s", desc, parts, d, fmtKVs(got), fmtKVs(all))
			return
		}
	}
	if nt >= 3 && in3 >= 1 && tov >= 1 {
		c.Nontrivial()
	}
	if c.Idx%100 == 0 {
		c.Sample(map[string]any{"stack": desc, "newest_table": fmtKVs(tables[nt-1])})
	}
}

func fmtKVs(kvs []kv) string {
	var b bytes.Buffer
	for i, e := range kvs {
		if i >= 14 {
			fmt.Fprintf(&b, " ...(%d)", len(kvs))
			break
		}
		v := "nil"
		if e.v != nil {
			v = fmt.Sprintf("%q", e.v)
			if len(v) > 24 {
				v = v[:24] + "~"
			}
		}
		fmt.Fprintf(&b, " %x=%s", e.k, v)
	}
	return b.String()
}
