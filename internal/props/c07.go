package props

import (
	"bytes"
	"crypto/sha256"
	"encoding/hex"
	"encoding/json"
	"flag"
	"fmt"
	"math/rand"
	"os"
	"path/filepath"
	"strings"
	"sync"

	"github.com/thomasjungblut/go-sstables/recordio"
	"github.com/thomasjungblut/go-sstables/wal"

	"verif/internal/fw"
	"verif/internal/gen"
	"verif/internal/strace"
)

// C07 — WAL replay yields the appended records in order; synced appends survive a kill.
// (a) cases [0,NA): in-process append/rotate programs, replayed by a fresh replayer.
// (b,c) cases [NA,N): a WAL-only session under strace: crash image at every mutating call -> Replay in a
//       fresh process must succeed and deliver a prefix that contains every acknowledged AppendSync; and over the
//       same log the fsync-ordering monitor: at the return of an AppendSync its bytes are written and fsynced.

func c07FaultCases(tier string) int {
	if tier == "thorough" {
		return 400
	}
	return 24
}

func c07Sizes(tier string) (int, int) {
	if tier == "thorough" {
		return 20000, 160
	}
	return 1500, 16
}

func init() {
	fw.Register(&fw.Prop{
		ID: "C07",
		Meta: func(tier string) fw.Meta {
			na, nb := c07Sizes(tier)
			return fw.Meta{N: na + nb + c07FaultCases(tier), Level: "fault_enumeration", Chunk: 20, CaseTimeoutS: 600, MinNT: 300,
				Rule:        "(a) seeded programs of 1..80 Append/AppendSync/Rotate calls with records nil/empty/1..3x the file size limit, limits {9,64,1024,1MiB}, writer buffers {64,4096,default}, 4 compression types; replays through the still-open log object in between (prefix of the appended records containing everything synced or rotated out so far), at the end a Replay through the same object and a fresh one must deliver exactly the appended sequence (nil and empty both replay as empty/nil payloads of length 0). (b) WAL-only sessions under strace (64-byte or 4 KiB writer buffer so that buffer flushes cut records, records up to 1 KiB, forced and size-triggered rotations) with INV/ACK markers: crash image after every mutating system call; Replay in a fresh process must succeed and deliver a prefix of the appended sequence containing every AppendSync acknowledged before the image. (c) over the same log: between the invocation and the acknowledgement of every AppendSync at least one write reached a WAL file and at the acknowledgement the WAL file written last (the one that received the record) has no written-but-unsynced bytes. (d) programs whose appender meets a failing write(2) (RLIMIT_FSIZE lowered in a sub-process for 1..3 calls or as a per-file cap; EFBIG from the kernel through the real writers, nothing killed) and goes on appending, retrying and rotating: a fresh Replay must succeed and deliver the attempted appends minus failed ones, cut off at some point, with no nil-returning append missing before a delivered one and no acknowledged synchronous append missing at all. evaluations = programs + distinct images; non-trivial = program with a rotation and >=3 records / traced session with >=50 images In (a) the base path is handed over in five spellings (cleaned, trailing separator, '.' segment, doubled separator, 'x/../x'), the fresh replayer gets another spelling than the appender; every 10th program shares its process with two other logs that are appended to (4000 records each) from goroutines of their own and replayed afterwards. Two programs in five of (a) replay through a reader factory with a 64-byte or 1 KiB read buffer (records larger than the reader's buffer). Direct-I/O programs have 120..320 calls and limits of 40 KB..1 MiB (an 8 KiB write buffer is flushed many times per file).",
				MinObs:      map[string]int64{"programs_replayed_through_a_reader_buffer_smaller_than_some_records": 100, "programs_with_a_base_path_not_in_cleaned_form": 100, "programs_sharing_the_process_with_two_concurrently_appended_logs": 20, "programs_replayed": 1000, "records_of_half_a_mebibyte_or_more": 10, "replays_through_the_open_log_object": 1000, "rotations_size_triggered": 500, "rotations_forced": 300, "records_larger_than_limit": 200, "wal_sessions_traced": 4, "wal_images_replayed": 1500, "sync_appends_checked_for_fsync": 300, "wal_images_with_cut_record": 50, "wal_fault_programs": 300, "wal_fault_programs_with_a_failed_write": 150, "wal_rotations_attempted_after_a_failed_write": 100, "wal_failed_write_inside_a_record_larger_than_the_buffer": 5},
				Assumptions: []string{"kill -9 model as in C02", "nil and empty records are not distinguished by the WAL's consumers (both have length 0)"},
			}
		},
		Run: runC07,
	})
	fw.RegisterSub("walsession", walSession)
	fw.RegisterSub("walreplay", walReplay)
	fw.RegisterSub("walfault", walFault)
}

func walOpts(dir string, limit uint64, wbuf, comp int) (*wal.Options, error) {
	return walOptsR(dir, limit, wbuf, comp, 0)
}

// walOptsR: as walOpts, with a reader factory whose read buffer has rbuf bytes (0 = the library's default factory)
func walOptsR(dir string, limit uint64, wbuf, comp, rbuf int) (*wal.Options, error) {
	extra := []wal.Option{}
	if rbuf > 0 {
		extra = append(extra, wal.ReaderFactory(func(path string) (recordio.ReaderI, error) {
			return recordio.NewFileReader(recordio.ReaderPath(path), recordio.ReaderBufferSizeBytes(rbuf))
		}))
	}
	return wal.NewWriteAheadLogOptions(append(extra, wal.BasePath(dir), wal.MaximumWalFileSizeBytes(limit),
		wal.WriterFactory(func(path string) (recordio.WriterI, error) {
			o := []recordio.FileWriterOption{recordio.Path(path), recordio.CompressionType(comp)}
			if wbuf > 0 {
				o = append(o, recordio.BufferSizeBytes(wbuf))
			}
			return recordio.NewFileWriter(o...)
		}))...)
}

func recHash(b []byte) string {
	h := sha256.Sum256(b)
	return fmt.Sprintf("%d:%s", len(b), hex.EncodeToString(h[:6]))
}

func runC07(c *fw.Case) {
	na, nb := c07Sizes(c.Tier)
	if c.Idx >= na+nb {
		c07Fault(c, c.Idx-na-nb)
		return
	}
	if c.Idx >= na {
		c07Traced(c, c.Idx-na)
		return
	}
	r := c.R
	limit := gen.Pick(r, uint64(9), 64, 1024, 1<<20)
	wbuf := gen.Pick(r, 64, 4096, 0)
	comp := r.Intn(4)
	// the log lives in a directory whose name may contain characters that mean something to pattern matchers and shells
	dir := filepath.Join(c.Dir, gen.Pick(r, "wal", "wal", "wal[0]", "shard[a-c]", "w a l", "wal*", "wäl?{1,2}"))
	// every 20th program logs through the direct-I/O writer (block-aligned writes of a whole 8 KiB buffer, zero-padded
	// tail; Append only — AppendSync is refused by that writer, as documented) on a real file system
	direct := c.Idx%20 == 7
	if direct {
		dir = filepath.Join(c.DiskDir(), "wal")
		c.Obs("programs_with_the_direct_io_writer", 1)
		// ... with a file size limit far above the 8 KiB write buffer, so that single log files are flushed many times
		limit = gen.Pick(r, uint64(40000), 1<<20, 1<<20)
	}
	_ = os.MkdirAll(dir, 0755)
	// the base path is handed over in a spelling that is valid but not necessarily in its cleaned form (trailing
	// separator, "." segment, doubled separator, "x/../x"); the fresh replayer at the end gets another spelling
	spell := func(how int) string {
		parent, base := filepath.Dir(dir), filepath.Base(dir)
		switch how % 5 {
		case 1:
			return dir + string(filepath.Separator)
		case 2:
			return parent + "/./" + base
		case 3:
			return parent + "//" + base
		case 4:
			return dir + "/../" + base
		}
		return dir
	}
	spelling, spelling2 := c.Idx%5, (c.Idx/5)%5
	if direct {
		spelling, spelling2 = 0, 0
	}
	if spelling != 0 || spelling2 != 0 {
		c.Obs("programs_with_a_base_path_not_in_cleaned_form", 1)
	}
	// every 10th program shares its process with two other logs that are appended to from goroutines of their own
	var others []*c07Other
	if c.Idx%10 == 3 {
		for i := 0; i < 2; i++ {
			o := &c07Other{dir: filepath.Join(c.Dir, fmt.Sprintf("other-log-%d", i)), seed: r.Int63(), comp: r.Intn(4), done: make(chan struct{})}
			others = append(others, o)
			go o.run()
		}
		c.Obs("programs_sharing_the_process_with_two_concurrently_appended_logs", 1)
		defer func() {
			for _, o := range others {
				<-o.done
			}
		}()
	}
	// two programs in five replay through a reader factory with a small read buffer (64 B / 1 KiB): records are then
	// often LARGER than the reader's buffer (the default one has 4 MiB), both through the log object and afresh
	rbuf := []int{0, 64, 0, 1024, 0}[c.Idx/2%5]
	if rbuf > 0 && !direct {
		c.Obs("programs_replayed_through_a_reader_buffer_smaller_than_some_records", 1)
	}
	opts, err := walOptsR(spell(spelling), limit, wbuf, comp, rbuf)
	if direct {
		opts, err = wal.NewWriteAheadLogOptions(wal.BasePath(dir), wal.MaximumWalFileSizeBytes(limit),
			wal.WriterFactory(func(path string) (recordio.WriterI, error) {
				return recordio.NewFileWriter(recordio.Path(path), recordio.CompressionType(comp), recordio.DirectIO(), recordio.BufferSizeBytes(8192))
			}))
	}
	if err != nil {
		c.Violate("harness/walopts", "%v", err)
		return
	}
	w, err := wal.NewWriteAheadLog(opts)
	if err != nil {
		c.Violate("wal/create-error", "%v", err)
		return
	}
	cfg := fmt.Sprintf("limit=%d wbuf=%d comp=%d directIO=%v rbuf=%d", limit, wbuf, comp, direct, rbuf)
	c.HashAdd(cfg)
	var want []string
	var prog []string
	steps := 1 + r.Intn(80)
	if direct {
		steps = 120 + r.Intn(200)
	}
	rotations, big := 0, 0
	durable := 0 // number of appended records that are on disk for sure (everything up to the last AppendSync / Rotate)
	for s := 0; s < steps; s++ {
		// now and then the log is replayed through the SAME log object while it is still being appended to: what it
		// delivers must be a prefix of the records appended so far that contains everything made durable so far
		if r.Intn(12) == 0 {
			var got []string
			err := w.Replay(func(rec []byte) error {
				got = append(got, recHash(rec))
				return nil
			})
			c.Obs("replays_through_the_open_log_object", 1)
			if err != nil {
				c.Violate("wal/replay-error/open-log", "%s: Replay through the open log object failed: %v\n%v", cfg, err, prog)
				return
			}
			if len(got) > len(want) || strings.Join(got, ",") != strings.Join(want[:len(got)], ",") {
				c.Violate("wal/replay-differs/open-log/no-prefix", "%s: Replay through the open log object delivered %d records that are no prefix of the %d appended\n got: %v\nwant: %v\n%v", cfg, len(got), len(want), tailS(got, 8), tailS(want, 8), prog)
				return
			}
			if len(got) < durable {
				c.Violate("wal/replay-differs/open-log/durable-records-missing", "%s: Replay through the open log object delivered %d records, %d were already synced or rotated out (rotations so far %d)\n%v", cfg, len(got), durable, rotations, prog)
				return
			}
			prog = append(prog, fmt.Sprintf("Replay=%d", len(got)))
		}
		switch x := r.Intn(10); {
		case x == 0:
			filesBefore := countWalFiles(dir)
			p, err := w.Rotate()
			if err != nil {
				c.Violate("wal/rotate-error", "%s: %v\n%v", cfg, err, prog)
				return
			}
			prog = append(prog, "Rotate")
			c.HashAdd("rot")
			durable = len(want)
			rotations++
			c.Obs("rotations_forced", 1)
			if p == "" || countWalFiles(dir) != filesBefore+1 {
				c.Violate("wal/rotate-no-new-file", "%s: Rotate returned %q, files %d -> %d", cfg, p, filesBefore, countWalFiles(dir))
				return
			}
		default:
			var rec []byte
			switch r.Intn(8) {
			case 0:
				rec = nil
			case 1:
				rec = []byte{}
			case 2:
				n := int(limit)
				if n > 3000 {
					n = 3000
				}
				rec = gen.Payload(r, 3*n+1)
				if uint64(len(rec)) > limit {
					big++
					c.Obs("records_larger_than_limit", 1)
				}
			default:
				rec = gen.Payload(r, 60)
			}
			if c.Idx%50 == 9 && r.Intn(10) == 0 {
				// every 50th program: some records of 512 KiB .. 2 MiB (beyond every pooled buffer size)
				n := gen.Pick(r, 512*1024+1, 700*1024, 1<<20+1, 2<<20)
				rec = bytes.Repeat(gen.Bytes(r, 1024), n/1024+1)[:n]
				c.Obs("records_of_half_a_mebibyte_or_more", 1)
			}
			c.HashAdd(rec)
			filesBefore := countWalFiles(dir)
			var err error
			if direct && x < 4 {
				// the direct-I/O writer refuses synchronous appends (documented): a refused append must not reach the log
				if r.Intn(3) == 0 {
					if e := w.AppendSync(rec); e == nil {
						c.Violate("wal/direct-io/sync-append-accepted", "%s: AppendSync on a direct-I/O log returned nil\n%v", cfg, prog)
						return
					}
					prog = append(prog, fmt.Sprintf("AppendSync(%s)->refused", fw.Hex(rec)))
					c.Obs("refused_sync_appends_on_direct_io", 1)
					continue
				}
				x = 4
			}
			if x < 4 {
				err = w.AppendSync(rec)
				prog = append(prog, fmt.Sprintf("AppendSync(%s)", fw.Hex(rec)))
			} else {
				err = w.Append(rec)
				prog = append(prog, fmt.Sprintf("Append(%s)", fw.Hex(rec)))
			}
			if err != nil {
				c.Violate("wal/append-error", "%s: %v\n%v", cfg, err, prog)
				return
			}
			if countWalFiles(dir) > filesBefore {
				rotations++
				c.Obs("rotations_size_triggered", 1)
			}
			want = append(want, recHash(rec))
			if x < 4 {
				durable = len(want)
			}
		}
		if len(prog) > 50 {
			prog = prog[1:]
		}
	}
	if err := w.Close(); err != nil {
		c.Violate("wal/close-error", "%s: %v", cfg, err)
		return
	}
	// the closed log is replayed twice: through the log object that wrote it (and may have replayed before) and afresh
	{
		var got []string
		err := w.Replay(func(rec []byte) error {
			got = append(got, recHash(rec))
			return nil
		})
		if err != nil || strings.Join(got, ",") != strings.Join(want, ",") {
			c.Violate("wal/replay-differs/same-object-after-close", "%s: Replay through the log object that wrote the log: err=%v, %d records, appended %d (rotations %d)\n%v", cfg, err, len(got), len(want), rotations, prog)
			return
		}
	}
	for _, o := range others {
		<-o.done
		if o.verdict != "" {
			c.Violate("wal/other-log-appended-concurrently/"+o.sig, "%s: a second log of the same process (own directory, own goroutine): %s", cfg, o.verdict)
			return
		}
	}
	ropts := opts
	if spelling2 != spelling {
		if ropts, err = walOptsR(spell(spelling2), limit, wbuf, comp, rbuf); err != nil {
			c.Violate("harness/walopts", "%v", err)
			return
		}
	}
	rp, err := wal.NewReplayer(ropts)
	if err != nil {
		c.Violate("wal/replayer-error", "%v", err)
		return
	}
	var got []string
	err = rp.Replay(func(rec []byte) error {
		got = append(got, recHash(rec))
		return nil
	})
	c.Obs("programs_replayed", 1)
	if err != nil {
		c.Violate("wal/replay-error", "%s: Replay failed on a cleanly closed log: %v\n%v", cfg, err, prog)
		return
	}
	if strings.Join(got, ",") != strings.Join(want, ",") {
		kind := "wrong-sequence"
		if len(got) < len(want) && strings.Join(got, ",") == strings.Join(want[:len(got)], ",") {
			kind = "records-missing-at-the-end"
		} else if len(got) == len(want) {
			kind = "record-content-or-order-differs"
		}
		c.Violate("wal/replay-differs/"+kind, "%s: replay delivered %d records, appended %d (rotations %d)\n got: %v\nwant: %v\n%v", cfg, len(got), len(want), rotations, tailS(got, 8), tailS(want, 8), prog)
		return
	}
	if rotations >= 1 && len(want) >= 3 {
		c.Nontrivial()
	}
	if c.Idx%300 == 0 {
		c.Sample(map[string]any{"config": cfg, "records": len(want), "rotations": rotations, "records_over_limit": big, "last_calls": tailS(prog, 6)})
	}
}

// c07Other is a second log of the same process: own directory, own goroutine, own appended sequence
type c07Other struct {
	dir     string
	seed    int64
	comp    int
	done    chan struct{}
	sig     string
	verdict string
}

func (o *c07Other) run() {
	defer close(o.done)
	r := rand.New(rand.NewSource(o.seed))
	_ = os.MkdirAll(o.dir, 0755)
	opts, err := walOpts(o.dir, 1<<16, 4096, o.comp)
	if err != nil {
		o.sig, o.verdict = "options", err.Error()
		return
	}
	w, err := wal.NewWriteAheadLog(opts)
	if err != nil {
		o.sig, o.verdict = "create-error", err.Error()
		return
	}
	var want []string
	for i := 0; i < 4000; i++ {
		rec := gen.Payload(r, 40)
		if i%500 == 499 {
			err = w.AppendSync(rec)
		} else {
			err = w.Append(rec)
		}
		if err != nil {
			o.sig, o.verdict = "append-error", fmt.Sprintf("append %d: %v", i, err)
			_ = w.Close()
			return
		}
		want = append(want, recHash(rec))
	}
	if err := w.Close(); err != nil {
		o.sig, o.verdict = "close-error", err.Error()
		return
	}
	rp, err := wal.NewReplayer(opts)
	if err != nil {
		o.sig, o.verdict = "replayer-error", err.Error()
		return
	}
	var got []string
	err = rp.Replay(func(rec []byte) error {
		got = append(got, recHash(rec))
		return nil
	})
	if err != nil {
		o.sig, o.verdict = "replay-error", fmt.Sprintf("Replay failed after %d of %d records: %v", len(got), len(want), err)
		return
	}
	if strings.Join(got, ",") != strings.Join(want, ",") {
		o.sig, o.verdict = "replay-differs", fmt.Sprintf("replay delivered %d records, appended %d", len(got), len(want))
	}
}

func tailS(s []string, n int) []string {
	if len(s) > n {
		return s[len(s)-n:]
	}
	return s
}

func countWalFiles(dir string) int {
	ents, _ := os.ReadDir(dir)
	n := 0
	for _, e := range ents {
		if strings.HasSuffix(e.Name(), ".wal") {
			n++
		}
	}
	return n
}

// ---------------- traced WAL session

func walSession(args []string) int {
	fs := flag.NewFlagSet("walsession", flag.ExitOnError)
	dir := fs.String("dir", "", "")
	ctlPath := fs.String("ctl", "", "")
	seed := fs.Int64("seed", 1, "")
	_ = fs.Parse(args)
	f, err := os.OpenFile(*ctlPath, os.O_WRONLY|os.O_CREATE|os.O_APPEND, 0644)
	if err != nil {
		return 3
	}
	ctl := &e2ctl{f: f}
	r := rand.New(rand.NewSource(*seed))
	limit := gen.Pick(r, uint64(200), 2000, 1<<20)
	wbuf := gen.Pick(r, 64, 64, 4096)
	comp := r.Intn(4)
	ctl.mark("SESSION limit=%d wbuf=%d comp=%d", limit, wbuf, comp)
	opts, err := walOpts(*dir, limit, wbuf, comp)
	if err != nil {
		return 3
	}
	w, err := wal.NewWriteAheadLog(opts)
	if err != nil {
		ctl.mark("FATAL create %v", err)
		return 4
	}
	n := 60 + r.Intn(120)
	for i := 0; i < n; i++ {
		x := r.Intn(20)
		if x == 0 {
			ctl.mark("INV %d rotate -", i)
			_, err := w.Rotate()
			if err != nil {
				ctl.mark("ACK %d err %v", i, err)
			} else {
				ctl.mark("ACK %d ok", i)
			}
			continue
		}
		var rec []byte
		switch r.Intn(8) {
		case 0:
			rec = nil
		case 1:
			rec = []byte{}
		case 2:
			rec = gen.Bytes(r, 200+r.Intn(824))
		default:
			rec = gen.Payload(r, 90)
		}
		kind := "append"
		if x < 8 {
			kind = "appendsync"
		}
		ctl.mark("INV %d %s %s", i, kind, recHash(rec))
		if kind == "append" {
			err = w.Append(rec)
		} else {
			err = w.AppendSync(rec)
		}
		if err != nil {
			ctl.mark("ACK %d err %v", i, err)
		} else {
			ctl.mark("ACK %d ok", i)
		}
	}
	ctl.mark("INV %d close -", n)
	if err := w.Close(); err != nil {
		ctl.mark("ACK %d err %v", n, err)
		return 5
	}
	ctl.mark("ACK %d ok", n)
	ctl.mark("END")
	return 0
}

type walReplayOut struct {
	Err string   `json:"err,omitempty"`
	Seq []string `json:"seq"`
}

func walReplay(args []string) int {
	fs := flag.NewFlagSet("walreplay", flag.ExitOnError)
	dir := fs.String("dir", "", "")
	_ = fs.Parse(args)
	var out walReplayOut
	opts, err := wal.NewWriteAheadLogOptions(wal.BasePath(*dir))
	if err == nil {
		var rp wal.WriteAheadLogReplayI
		rp, err = wal.NewReplayer(opts)
		if err == nil {
			err = rp.Replay(func(rec []byte) error {
				out.Seq = append(out.Seq, recHash(rec))
				return nil
			})
		}
	}
	if err != nil {
		out.Err = err.Error()
	}
	b, _ := json.Marshal(out)
	fmt.Println(string(b))
	return 0
}

type walOp struct {
	kind string
	hash string
	done bool
	err  bool
}

func c07Traced(c *fw.Case, j int) {
	work := realDir(c.Dir) // (the traced process sees real paths: a case directory reached through a link is resolved once)
	dir := filepath.Join(work, "wal")
	_ = os.MkdirAll(dir, 0755)
	ctl := filepath.Join(work, "ctl")
	seed := fw.CaseSeed("C07-session", c.Seed, j)
	c.HashAdd("walsession", seed)
	logPath, res := e2Trace(work, "trace.log", 240, 300000, "walsession", "-dir", dir, "-ctl", ctl, "-seed", fmt.Sprint(seed))
	if res.TimedOut {
		c.Inconclusive("traced WAL session watchdog expired")
		return
	}
	c.Obs("wal_sessions_traced", 1)
	// fidelity pass
	rp := strace.NewReplayer(dir, ctl)
	_ = strace.ReadLog(logPath, func(line string) error { rp.Feed(line); return nil })
	if len(rp.Problems) > 0 {
		c.Inconclusive("replayer did not understand part of the log: " + rp.Problems[0])
		return
	}
	if d := rp.CompareWithDisk(dir); len(d) > 0 {
		c.Inconclusive("fidelity self-check failed: " + strings.Join(d[:min(3, len(d))], "; "))
		return
	}
	if res.Exit != 0 {
		c.Violate("wal-crash/session-failed-without-crash", "the traced WAL session ended abnormally (exit %d): %s", res.Exit, cutS(res.Stderr, 500))
	}
	// image pass
	rp = strace.NewReplayer(dir, ctl)
	var ops []walOp
	inflight := -1
	lastSyncAcked := -1 // index (in the appended-record sequence) of the last acknowledged sync append
	var appended []string
	opToRec := map[int]int{}
	dirty := map[string]bool{}
	wroteSinceInv := false
	lastWritten := ""
	session := ""
	type job struct {
		dir      string
		seq      int
		after    string
		appended []string
		minLen   int
		listing  []string
		inflight string
	}
	jobs := make(chan job, 64)
	var wg sync.WaitGroup
	var mu sync.Mutex
	verdicts := map[string]string{}
	counts := map[string]int{}
	judged := 0
	for w := 0; w < 6; w++ {
		wg.Add(1)
		go func() {
			defer wg.Done()
			for jb := range jobs {
				r := fw.RunSub("", 60, nil, work, "walreplay", "-dir", jb.dir)
				var out walReplayOut
				sig, detail := "", ""
				where := fmt.Sprintf("image #%d after %s, call in flight: %s\nfiles: %s", jb.seq, jb.after, jb.inflight, strings.Join(jb.listing, " "))
				switch {
				case r.TimedOut:
					sig, detail = "INCONCLUSIVE", "replay watchdog expired"
				case json.Unmarshal(bytes.TrimSpace(r.Stdout), &out) != nil:
					sig, detail = "wal-crash/replaying-process-died/"+fw.PanicSite(r.Stderr), fmt.Sprintf("exit %d on %s\n%s", r.Exit, where, cutS(r.Stderr, 600))
				case out.Err != "":
					sig, detail = "wal-crash/replay-fails/"+errClass(out.Err, jb.dir), fmt.Sprintf("Replay fails on %s\nerror: %s", where, out.Err)
				default:
					n := len(out.Seq)
					if n > len(jb.appended) || strings.Join(out.Seq, ",") != strings.Join(jb.appended[:n], ",") {
						sig, detail = "wal-crash/replay-is-not-a-prefix", fmt.Sprintf("replayed %d records that are not a prefix of the %d appended ones on %s\n got: %v\nwant: %v", n, len(jb.appended), where, tailS(out.Seq, 6), tailS(jb.appended, 6))
					} else if n < jb.minLen {
						sig, detail = "wal-crash/acknowledged-sync-append-lost", fmt.Sprintf("replay delivers %d records, but the synchronous append of record #%d had returned before on %s", n, jb.minLen, where)
					}
				}
				_ = os.RemoveAll(jb.dir)
				mu.Lock()
				judged++
				if sig == "INCONCLUSIVE" {
					c.Inconclusive(detail)
				} else if sig != "" {
					if _, ok := verdicts[sig]; !ok {
						verdicts[sig] = detail
					}
					counts[sig]++
				}
				mu.Unlock()
			}
		}()
	}
	seen := map[string]bool{}
	imgNo := 0
	cut := 0
	_ = strace.ReadLog(logPath, func(line string) error {
		for _, ev := range rp.Feed(line) {
			switch ev.Kind {
			case "marker":
				f := strings.Fields(ev.Marker)
				switch f[0] {
				case "SESSION":
					session = ev.Marker
				case "INV":
					op := walOp{kind: f[2]}
					if len(f) > 3 {
						op.hash = f[3]
					}
					ops = append(ops, op)
					inflight = len(ops) - 1
					wroteSinceInv = false
					lastWritten = ""
					if op.kind == "append" || op.kind == "appendsync" {
						appended = append(appended, op.hash)
						opToRec[inflight] = len(appended) - 1
					}
				case "ACK":
					if inflight >= 0 {
						op := &ops[inflight]
						op.done = true
						op.err = len(f) > 2 && f[2] == "err"
						if op.err {
							mu.Lock()
							verdicts["wal-crash/call-failed-without-fault"] = ev.Marker
							counts["wal-crash/call-failed-without-fault"]++
							mu.Unlock()
						}
						if op.kind == "appendsync" && !op.err {
							lastSyncAcked = opToRec[inflight]
							// (c) fsync-ordering monitor
							c.Obs("sync_appends_checked_for_fsync", 1)
							var unsynced []string
							for p, d := range dirty {
								// only the file that received this call's record matters: the one written last
								// (a size-triggered rotation inside the call first flushes OLDER asynchronous
								// appends into the file it closes, those are not this call's bytes)
								if d && p == lastWritten {
									unsynced = append(unsynced, p)
								}
							}
							mu.Lock()
							if !wroteSinceInv {
								verdicts["wal-sync/append-sync-returned-without-any-write"] = fmt.Sprintf("AppendSync #%d (%s) returned although no write reached a WAL file since its invocation [%s]", inflight, op.hash, session)
								counts["wal-sync/append-sync-returned-without-any-write"]++
							} else if len(unsynced) > 0 {
								verdicts["wal-sync/append-sync-returned-with-unsynced-bytes"] = fmt.Sprintf("AppendSync #%d (%s) returned while %v had written bytes that were not fsynced [%s]", inflight, op.hash, unsynced, session)
								counts["wal-sync/append-sync-returned-with-unsynced-bytes"]++
							}
							mu.Unlock()
						}
						inflight = -1
					}
				}
			case "fsync":
				dirty[ev.Path] = false
			case "mutation":
				if ev.Call == "write" {
					dirty[ev.Path] = true
					wroteSinceInv = true
					lastWritten = ev.Path
				}
				if ev.Call == "unlink" || ev.Call == "rename" {
					delete(dirty, ev.Path)
				}
				key := rp.Hash() + fmt.Sprint(lastSyncAcked, len(appended))
				if seen[key] {
					continue
				}
				seen[key] = true
				if e2NewestWalIsCutIn(rp, "") {
					cut++
				}
				imgNo++
				d := filepath.Join(work, fmt.Sprintf("img-%d", imgNo))
				if err := rp.Materialise(d, nil); err != nil {
					c.Inconclusive("materialise: " + err.Error())
					continue
				}
				infl := "none"
				if inflight >= 0 {
					infl = fmt.Sprintf("#%d %s %s", inflight, ops[inflight].kind, ops[inflight].hash)
				}
				jobs <- job{dir: d, seq: ev.Seq, after: ev.Call + ":" + pathPattern(ev.Path), appended: append([]string{}, appended...), minLen: lastSyncAcked + 1, listing: rp.Listing(), inflight: infl}
			}
		}
		return nil
	})
	close(jobs)
	wg.Wait()
	c.Obs("wal_images_replayed", int64(judged))
	c.Obs("wal_images_with_cut_record", int64(cut))
	for sig, d := range verdicts {
		c.Violate(sig, "WAL session seed=%d [%s] [%d occurrences]\n%s", seed, session, counts[sig], d)
	}
	if judged >= 50 {
		c.Nontrivial()
	}
	c.SetUnits(int64(max(judged, 1)), int64(judged))
	c.Sample(map[string]any{"session": session, "calls": len(ops), "records_appended": len(appended), "images_replayed": judged, "images_with_cut_record": cut})
}
