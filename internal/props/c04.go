package props

import (
	"bytes"
	"errors"
	"fmt"
	"io"
	"os"
	"path/filepath"

	"github.com/thomasjungblut/go-sstables/recordio"

	"verif/internal/fw"
	"verif/internal/gen"
	"verif/internal/rio"
)

// C04 — RecordIO round trip through every reader and access path.

type c04rec struct {
	off  uint64
	data []byte // nil = nil record
}

func init() {
	fw.Register(&fw.Prop{
		ID: "C04",
		Meta: func(tier string) fw.Meta {
			n := 2500
			if tier == "thorough" {
				n = 60000
			}
			return fw.Meta{N: n, Level: "exploration", Chunk: 50, CaseTimeoutS: 120, MinNT: 300,
				Rule:        "seeded writer programs (Write/WriteSync/Seek back to an earlier record boundary/rejected Seek into the header or past the size/Close) over nil, empty, random, compressible and marker-laden records with sizes around buffer, page and 4 KiB-window boundaries (every 100th program also around 512 KiB and 1 MiB) x 4 compression types x write buffers {8,13,64,4096,64Ki,default} x buffered/direct-I/O writer; then (a) sequential reader programs mixing ReadNext and SkipNext with read buffers {1,3,16,37,4096,64Ki,4Mi} (every other second program over a file on disk through the direct-I/O reader factory, block-multiple buffers), both calls must report EOF at the end (also behind the zero padding of direct-I/O files), (b) ReadNextAt at every returned offset, (c) SeekNext from every byte offset 0..size (files <= 8 KiB; record starts +-2 and window boundaries beyond). Non-trivial: >=3 surviving records incl. a nil or marker-ending one and >=1 skip; distinct by hash of program+config. Payloads embedding a complete valid record image are not generated (format cannot distinguish them) Every 12th buffered-writer program puts its file on a real disk and reads it through the direct-I/O reader factory (file size no block multiple).",
				MinObs:      map[string]int64{"buffered_files_read_through_the_direct_io_reader": 20, "seeknext_offsets_checked": 100000, "skips_checked": 1000, "nil_records_skipped": 50, "seek_back_programs": 100, "rejected_seeks": 100, "readat_checked": 5000, "directio_files": 10, "directio_files_with_one_or_two_padding_bytes": 20, "records_of_half_a_mebibyte_or_more": 10, "directio_reader_runs": 30, "records_ending_in_marker_prefix": 200},
				Assumptions: []string{"direct-I/O writer is used without Seek/WriteSync (documented limitation) and with block-multiple buffers"},
			}
		},
		Run: runC04,
	})
}

func c04Record(c *fw.Case, bufSize int) []byte {
	r := c.R
	// every 100th program may contain records around the sizes at which buffer pools and readers change their ways
	// (512 KiB, 1 MiB): one in eight of its records is that large
	if c.Idx%100 == 3 && r.Intn(8) == 0 {
		n := gen.Pick(r, 512*1024, 1024*1024) + r.Intn(3) - 1 + r.Intn(2)*r.Intn(200000)
		if r.Intn(2) == 0 {
			// lengths just above a multiple of the 32 KiB steps in which stream decompressors hand out their data
			n = (17+r.Intn(20))*32768 + 1 + r.Intn(511)
		}
		c.Obs("records_of_half_a_mebibyte_or_more", 1)
		b := gen.Bytes(r, 4096)
		p := make([]byte, 0, n)
		for len(p) < n {
			p = append(p, b...)
		}
		return p[:n]
	}
	if r.Intn(40) == 0 {
		// a payload that is mostly a long run of ZERO bytes (zeros are data, not padding)
		p := append(gen.Payload(r, 20), make([]byte, 8192+r.Intn(6000))...)
		c.Obs("records_with_a_zero_run_of_two_windows", 1)
		return append(p, gen.Payload(r, 20)...)
	}
	switch r.Intn(12) {
	case 0:
		return nil
	case 1:
		return []byte{}
	case 2: // boundary sizes
		b := gen.Pick(r, 1, bufSize-1, bufSize, bufSize+1, 4095, 4096, 4097, 3*bufSize, 32768, 65536)
		if b > 20000 && r.Intn(4) != 0 {
			b = 20000
		}
		if b > 70000 {
			b = 70000
		}
		if b < 0 {
			b = 0
		}
		n := gen.SizeAround(r, b)
		p := gen.Payload(r, n)
		for len(p) < n {
			p = append(p, gen.Hostile(r, n-len(p))...)
		}
		return p[:n]
	default:
		return gen.Payload(r, 300)
	}
}

func endsInMarkerPrefix(b []byte) bool {
	return bytes.HasSuffix(b, []byte{0x91}) || bytes.HasSuffix(b, []byte{0x91, 0x8d})
}

// c04PaddingSweep: direct-I/O files are padded with zeros to the next block boundary; the end of the data is swept across
// the last 30 bytes of a block (padding of 0, 1, 2, ... bytes) and every reader must still report the one record and then
// end-of-file.
func c04PaddingSweep(c *fw.Case) {
	dir := c.DiskDir()
	// a writer buffer LARGER than the default: the padding behind one small record is close to 8 MiB
	{
		path := filepath.Join(dir, "pad8.rio")
		rec := gen.Payload(c.R, 100)
		w, err := recordio.NewFileWriter(recordio.Path(path), recordio.DirectIO(), recordio.BufferSizeBytes(8*1024*1024))
		if err == nil {
			err = w.Open()
		}
		if err == nil {
			_, err = w.Write(rec)
		}
		if err == nil {
			err = w.Close()
		}
		if err != nil {
			c.Violate("recordio/direct-io/open-error", "8 MiB buffer: %v", err)
			return
		}
		rd, err := recordio.NewFileReaderWithPath(path)
		if err == nil {
			err = rd.Open()
		}
		if err != nil {
			c.Violate("recordio/seq/open", "8 MiB direct-I/O buffer: %v", err)
			return
		}
		got, err := rd.ReadNext()
		if err != nil || !bytes.Equal(got, rec) {
			c.Violate("recordio/seq/wrong-record/directio", "8 MiB direct-I/O buffer: first ReadNext = (%d bytes,%v)", len(got), err)
		} else if _, err := rd.ReadNext(); !errors.Is(err, io.EOF) {
			c.Violate("recordio/seq/no-eof/directio/padding", "file written through an 8 MiB direct-I/O buffer (one small record, the rest zero padding): ReadNext after the record returned %v instead of EOF", err)
		}
		_ = rd.Close()
		_ = os.Remove(path)
		c.Obs("directio_files_with_megabytes_of_padding", 1)
		if c.Violated() {
			return
		}
	}
	for comp := 0; comp < 2; comp++ {
		for L := 4096 - 8 - 32; L <= 4096-8+2; L++ {
			path := filepath.Join(dir, "pad.rio")
			_ = os.Remove(path)
			rec := bytes.Repeat([]byte{byte('a' + L%26)}, L)
			if comp == 1 {
				rec = gen.Bytes(c.R, L) // incompressible under snappy: the stored length stays close to L
			}
			w, err := recordio.NewFileWriter(recordio.Path(path), recordio.CompressionType(comp), recordio.DirectIO(), recordio.BufferSizeBytes(4096))
			if err == nil {
				err = w.Open()
			}
			if err != nil {
				c.Violate("recordio/direct-io/open-error", "%v", err)
				return
			}
			if _, err := w.Write(rec); err != nil {
				c.Violate("recordio/write-error", "padding sweep: %v", err)
				return
			}
			end := w.Size()
			if err := w.Close(); err != nil {
				c.Violate("recordio/close-error", "padding sweep: %v", err)
				return
			}
			st, _ := os.Stat(path)
			pad := st.Size() - int64(end)
			c.Obs("directio_padding_lengths_swept", 1)
			if pad >= 1 && pad <= 2 {
				c.Obs("directio_files_with_one_or_two_padding_bytes", 1)
			}
			for _, direct := range []bool{false, true} {
				ropts := []recordio.FileReaderOption{recordio.ReaderPath(path)}
				if direct {
					ropts = append(ropts, recordio.ReaderBufferSizeBytes(4096), recordio.ReaderIoFactory(recordio.DirectIOFactory{}))
				}
				rd, err := recordio.NewFileReader(ropts...)
				if err == nil {
					err = rd.Open()
				}
				if err != nil {
					c.Violate("recordio/seq/open", "padding sweep (data ends %d bytes before the block end): %v", pad, err)
					return
				}
				got, err := rd.ReadNext()
				if err != nil || !bytes.Equal(got, rec) {
					c.Violate("recordio/seq/wrong-record/directio", "padding sweep comp=%d (data ends %d bytes before the block end) directReader=%v: first ReadNext = (%d bytes,%v)", comp, pad, direct, len(got), err)
					_ = rd.Close()
					return
				}
				if _, err := rd.ReadNext(); !errors.Is(err, io.EOF) {
					c.Violate("recordio/seq/no-eof/directio/padding", "padding sweep comp=%d: the data ends %d bytes before the block end; ReadNext after the only record returned %v instead of EOF (directReader=%v)", comp, pad, err, direct)
					_ = rd.Close()
					return
				}
				_ = rd.Close()
			}
			mr, err := recordio.NewMemoryMappedReaderWithPath(path)
			if err == nil && mr.Open() == nil {
				if _, _, err := mr.SeekNext(end); !errors.Is(err, io.EOF) {
					c.Violate("recordio/seeknext/no-eof-past-last-record/directio/padding", "padding sweep comp=%d: SeekNext(%d) with %d padding bytes behind the data returned %v instead of EOF", comp, end, pad, err)
					_ = mr.Close()
					return
				}
				_ = mr.Close()
			}
		}
	}
}

func runC04(c *fw.Case) {
	if c.Idx%50 == 7 {
		c04PaddingSweep(c)
		if c.Violated() {
			return
		}
	}
	r := c.R
	comp := r.Intn(4)
	direct := r.Intn(12) == 0
	wbuf := gen.Pick(r, 8, 13, 64, 4096, 65536, 65536, 0) // 0 = library default (4 MiB)
	dir := c.Dir
	if direct {
		dir = c.DiskDir()
		wbuf = gen.Pick(r, 4096, 8192, 65536)
	} else if c.Idx%12 == 5 {
		// written by the BUFFERED writer (so its size is no multiple of the block size), but on a real disk: the second
		// sequential program reads it through the direct-I/O reader factory
		dir = c.DiskDir()
		c.Obs("buffered_files_read_through_the_direct_io_reader", 1)
	}
	path := filepath.Join(dir, "f.rio")
	opts := []recordio.FileWriterOption{recordio.Path(path), recordio.CompressionType(comp)}
	if wbuf != 0 {
		opts = append(opts, recordio.BufferSizeBytes(wbuf))
	}
	if direct {
		opts = append(opts, recordio.DirectIO())
	}
	c.HashAdd("cfg", comp, direct, wbuf)
	cfg := fmt.Sprintf("comp=%d direct=%v wbuf=%d", comp, direct, wbuf)
	w, err := recordio.NewFileWriter(opts...)
	if err != nil {
		c.Violate("recordio/writer-create", "%s: %v", cfg, err)
		return
	}
	if err := w.Open(); err != nil {
		c.Violate("recordio/writer-open", "%s: %v", cfg, err)
		return
	}
	var model []c04rec
	var prog []string
	steps := 1 + r.Intn(40)
	if r.Intn(10) == 0 {
		steps = 0
	}
	seekBack := false
	effBuf := wbuf
	if effBuf == 0 {
		effBuf = 4096
	}
	for s := 0; s < steps; s++ {
		op := r.Intn(10)
		switch {
		case op == 0 && !direct && len(model) > 0: // seek back to an earlier record boundary (or current size)
			i := r.Intn(len(model) + 1)
			var off uint64
			if i == len(model) {
				off = w.Size()
			} else {
				off = model[i].off
			}
			prog = append(prog, fmt.Sprintf("Seek(%d)", off))
			c.HashAdd("seek", i)
			if err := w.Seek(off); err != nil {
				c.Violate("recordio/seek-error", "%s: Seek(%d) to a record boundary failed: %v\nprog: %v", cfg, off, err, prog)
				return
			}
			if i < len(model) {
				seekBack = true
			}
			model = model[:i]
			if w.Size() != off {
				c.Violate("recordio/size-after-seek", "%s: Size()=%d after Seek(%d)\nprog: %v", cfg, w.Size(), off, prog)
			}
		case op == 2 && !direct && r.Intn(3) == 0: // a seek that must be rejected (into the file header / past the size) and must change nothing
			var off uint64
			if r.Intn(2) == 0 {
				off = uint64(r.Intn(8))
			} else {
				off = w.Size() + 1 + uint64(r.Intn(50))
			}
			prog = append(prog, fmt.Sprintf("Seek(%d)=rejected", off))
			c.HashAdd("badseek", off)
			before := w.Size()
			if err := w.Seek(off); err == nil {
				c.Violate("recordio/seek-out-of-range-accepted", "%s: Seek(%d) outside [8,%d] was accepted\nprog: %v", cfg, off, before, prog)
				return
			}
			if w.Size() != before {
				c.Violate("recordio/rejected-seek-moved-size", "%s: Size()=%d after a rejected Seek(%d), was %d", cfg, w.Size(), off, before)
				return
			}
			c.Obs("rejected_seeks", 1)
		default:
			rec := c04Record(c, effBuf)
			c.HashAdd(rec, rec == nil)
			sync := op == 1 && !direct
			before := w.Size()
			var off uint64
			var err error
			if op == 1 && direct && r.Intn(3) == 0 {
				// the direct-I/O writer refuses WriteSync (documented): the refused call must not leave the record behind
				_, e := w.WriteSync(rec)
				prog = append(prog, fmt.Sprintf("WriteSync(%s)->refused", fw.Hex(rec)))
				c.Obs("refused_sync_writes_on_direct_io", 1)
				if e == nil {
					c.Violate("recordio/direct-io/sync-write-accepted", "%s: WriteSync on a direct-I/O writer returned nil\nprog: %v", cfg, prog)
					return
				}
				if w.Size() != before {
					c.Violate("recordio/direct-io/refused-sync-write-moved-size", "%s: Size()=%d after a refused WriteSync, was %d\nprog: %v", cfg, w.Size(), before, prog)
					return
				}
				continue
			}
			if sync {
				off, err = w.WriteSync(rec)
				prog = append(prog, fmt.Sprintf("WriteSync(%s)", fw.Hex(rec)))
			} else {
				off, err = w.Write(rec)
				prog = append(prog, fmt.Sprintf("Write(%s)", fw.Hex(rec)))
			}
			if err != nil {
				c.Violate("recordio/write-error", "%s: write failed: %v\nprog: %v", cfg, err, prog)
				return
			}
			if off != before {
				c.Violate("recordio/write/offset-not-size", "%s: Write returned offset %d but Size() before was %d\nprog: %v", cfg, off, before, prog)
			}
			if len(model) == 0 && off != recordio.FileHeaderSizeBytes {
				c.Violate("recordio/write/first-offset", "%s: first record at %d want 8", cfg, off)
			}
			if len(model) > 0 && off <= model[len(model)-1].off {
				c.Violate("recordio/write/offsets-not-increasing", "%s: offset %d after %d\nprog: %v", cfg, off, model[len(model)-1].off, prog)
			}
			if w.Size() <= off {
				c.Violate("recordio/write/size-not-advanced", "%s: Size()=%d after writing at %d", cfg, w.Size(), off)
			}
			if endsInMarkerPrefix(rec) {
				c.Obs("records_ending_in_marker_prefix", 1)
			}
			model = append(model, c04rec{off: off, data: rec})
		}
	}
	finalSize := w.Size()
	if err := w.Close(); err != nil {
		c.Violate("recordio/close-error", "%s: Close: %v\nprog: %v", cfg, err, prog)
		return
	}
	if seekBack {
		c.Obs("seek_back_programs", 1)
	}
	if direct {
		c.Obs("directio_files", 1)
	}
	img, err := os.ReadFile(path)
	if err != nil {
		c.Violate("harness/readfile", "%v", err)
		return
	}
	if !direct && uint64(len(img)) != finalSize {
		c.Violate("recordio/file-length", "%s: file has %d bytes but Size() was %d at Close (seekBack=%v)\nprog: %v", cfg, len(img), finalSize, seekBack, prog)
	}
	// cross-check the layout with the independent parser
	if pf, err := rio.Parse(img); err == nil {
		if len(pf.Recs) != len(model) {
			c.Violate("recordio/layout/record-count", "%s: independent parser sees %d records, model has %d (seekBack=%v)\nprog: %v", cfg, len(pf.Recs), len(model), seekBack, prog)
		} else {
			for i, pr := range pf.Recs {
				if uint64(pr.Start) != model[i].off || pr.Nil != (model[i].data == nil) || !pr.CrcOK {
					c.Violate("recordio/layout/record", "%s: record %d at %d nil=%v crcOK=%v; model off=%d nil=%v", cfg, i, pr.Start, pr.Nil, pr.CrcOK, model[i].off, model[i].data == nil)
					break
				}
			}
		}
	}
	if c.Violated() {
		return
	}
	feat := ""
	if comp != 0 {
		feat += "/compressed"
	}
	if direct {
		feat += "/directio"
	}
	c04Sequential(c, path, model, cfg, feat, prog, direct)
	c04Random(c, path, img, model, cfg, feat, prog, direct)

	nilOrMarker := false
	for _, m := range model {
		if m.data == nil || endsInMarkerPrefix(m.data) {
			nilOrMarker = true
		}
	}
	if len(model) >= 3 && nilOrMarker && c.GetObs("skips_checked") > 0 {
		c.Nontrivial()
	}
	if c.Idx%400 == 0 {
		c.Sample(map[string]any{"config": cfg, "program": prog[:min(len(prog), 10)], "surviving_records": len(model), "file_bytes": len(img)})
	}
}

func sameRec(got, want []byte) bool {
	if (got == nil) != (want == nil) {
		return false
	}
	return bytes.Equal(got, want)
}

func c04Sequential(c *fw.Case, path string, model []c04rec, cfg, feat string, prog []string, directWritten bool) {
	r := c.R
	rounds := 2
	for round := 0; round < rounds; round++ {
		rbuf := gen.Pick(r, 1, 3, 16, 37, 4096, 65536, 4*1024*1024)
		if st, err := os.Stat(path); err == nil && st.Size() > 256*1024 && rbuf < 4096 {
			rbuf = 4096 // (megabyte files are not read through 1..37 byte buffers: that is millions of system calls)
		}
		useDirectReader := round == 1 && (r.Intn(2) == 0 || !directWritten) && filepath.Dir(path) != c.Dir
		ropts := []recordio.FileReaderOption{recordio.ReaderPath(path), recordio.ReaderBufferSizeBytes(rbuf)}
		if useDirectReader {
			rbuf = gen.Pick(r, 4096, 8192)
			ropts = []recordio.FileReaderOption{recordio.ReaderPath(path), recordio.ReaderBufferSizeBytes(rbuf), recordio.ReaderIoFactory(recordio.DirectIOFactory{})}
		}
		rd, err := recordio.NewFileReader(ropts...)
		if err != nil {
			c.Violate("recordio/seq/create", "%s rbuf=%d: %v", cfg, rbuf, err)
			return
		}
		if err := rd.Open(); err != nil {
			c.Violate("recordio/seq/open", "%s rbuf=%d: %v", cfg, rbuf, err)
			_ = rd.Close()
			return
		}
		rfeat := feat
		if useDirectReader {
			rfeat = feat + "/directio-reader"
			c.Obs("directio_reader_runs", 1)
		}
		allRead := round == 0
		skippedNil, skippedAny := false, false
		var rprog []string
		// the slices ReadNext returned are KEPT (not copied) and compared again after the later calls and after Close:
		// a returned record belongs to the caller, it must not change when the reader goes on or is closed
		type keptRec struct {
			idx int
			got []byte
		}
		var kept []keptRec
		recheckKept := func(when string) bool {
			for _, k := range kept {
				if !sameRec(k.got, model[k.idx].data) {
					c.Violate("recordio/seq/returned-record-changed-later/"+when+rfeat, "%s rbuf=%d: the slice ReadNext returned for record %d read %s when it was returned and reads %s %s\nreader: %v", cfg, rbuf, k.idx, fw.Hex(model[k.idx].data), fw.Hex(k.got), when, rprog)
					return false
				}
			}
			c.Obs("kept_returned_slices_compared_again", int64(len(kept)))
			return true
		}
		for i, m := range model {
			if !allRead && r.Intn(2) == 0 {
				rprog = append(rprog, "skip")
				err := rd.SkipNext()
				c.Obs("skips_checked", 1)
				skippedAny = true
				if m.data == nil {
					skippedNil = true
					c.Obs("nil_records_skipped", 1)
				}
				if err != nil {
					c.Violate("recordio/seq/skip-error"+c04skipFeat(skippedNil, false)+rfeat, "%s rbuf=%d: SkipNext on record %d returned %v\nreader: %v\nprog: %v", cfg, rbuf, i, err, rprog, prog)
					_ = rd.Close()
					return
				}
				continue
			}
			rprog = append(rprog, "read")
			got, err := rd.ReadNext()
			if err != nil {
				c.Violate("recordio/seq/read-error"+c04skipFeat(skippedNil, skippedAny)+rfeat, "%s rbuf=%d directReader=%v: ReadNext on record %d (of %d) returned %v\nreader: %v\nprog: %v", cfg, rbuf, useDirectReader, i, len(model), err, rprog, prog)
				_ = rd.Close()
				return
			}
			if !sameRec(got, m.data) {
				sig := "recordio/seq/wrong-record"
				if bytes.Equal(got, m.data) {
					sig = "recordio/seq/nil-vs-empty"
				}
				c.Violate(sig+c04skipFeat(skippedNil, skippedAny)+feat, "%s rbuf=%d: record %d read as %s want %s\nreader: %v\nprog: %v", cfg, rbuf, i, fw.Hex(got), fw.Hex(m.data), rprog, prog)
				_ = rd.Close()
				return
			}
			c.Obs("seq_reads_checked", 1)
			kept = append(kept, keptRec{i, got})
		}
		// end of file: both ReadNext and SkipNext must report an EOF-class error, repeatedly
		got, err := rd.ReadNext()
		if !errors.Is(err, io.EOF) {
			c.Violate("recordio/seq/no-eof"+c04skipFeat(skippedNil, skippedAny)+rfeat, "%s rbuf=%d: after %d records ReadNext returned (%s,%v) want EOF\nreader: %v\nprog: %v", cfg, rbuf, len(model), fw.Hex(got), err, rprog, prog)
		}
		if true {
			if err := rd.SkipNext(); !errors.Is(err, io.EOF) {
				c.Violate("recordio/seq/skip-no-eof"+rfeat, "%s rbuf=%d: SkipNext at the end returned %v want EOF", cfg, rbuf, err)
			}
		}
		okKept := recheckKept("after-the-later-calls")
		if err := rd.Close(); err != nil {
			c.Violate("recordio/seq/close", "%v", err)
		}
		if okKept {
			recheckKept("after-close")
		}
	}
}

func c04skipFeat(skippedNil, skippedAny bool) string {
	if skippedNil {
		return "/after-skip-of-nil-record"
	}
	if skippedAny {
		return "/after-skip"
	}
	return ""
}

func c04Random(c *fw.Case, path string, img []byte, model []c04rec, cfg, feat string, prog []string, direct bool) {
	mr, err := recordio.NewMemoryMappedReaderWithPath(path)
	if err != nil {
		c.Violate("recordio/mmap/create", "%s: %v", cfg, err)
		return
	}
	if err := mr.Open(); err != nil {
		c.Violate("recordio/mmap/open", "%s: %v", cfg, err)
		_ = mr.Close()
		return
	}
	defer mr.Close()
	for i, m := range model {
		got, err := mr.ReadNextAt(m.off)
		c.Obs("readat_checked", 1)
		if err != nil {
			c.Violate("recordio/readat/error"+feat, "%s: ReadNextAt(%d) record %d: %v\nprog: %v", cfg, m.off, i, err, prog)
			return
		}
		if !sameRec(got, m.data) {
			sig := "recordio/readat/wrong-record"
			if bytes.Equal(got, m.data) {
				sig = "recordio/readat/nil-vs-empty"
			}
			c.Violate(sig+feat, "%s: ReadNextAt(%d) = %s want %s", cfg, m.off, fw.Hex(got), fw.Hex(m.data))
			return
		}
	}
	if !direct {
		if got, err := mr.ReadNextAt(uint64(len(img))); !errors.Is(err, io.EOF) {
			c.Violate("recordio/readat/no-eof-at-size"+feat, "%s: ReadNextAt(size=%d) = (%s,%v) want EOF", cfg, len(img), fw.Hex(got), err)
		}
	}
	// SeekNext from byte offsets
	var offs []int
	if len(img) <= 8192 {
		for o := 0; o <= len(img); o++ {
			offs = append(offs, o)
		}
	} else {
		set := map[int]bool{0: true, 7: true, 8: true, len(img): true, len(img) - 1: true}
		for _, m := range model {
			for d := -3; d <= 3; d++ {
				set[int(m.off)+d] = true
			}
		}
		for w := 4096; w < len(img); w += 4096 {
			for d := -4; d <= 4; d++ {
				set[w+d] = true
			}
		}
		for i := 0; i < 300; i++ {
			set[c.R.Intn(len(img))] = true
		}
		for o := range set {
			if o >= 0 && o <= len(img) {
				offs = append(offs, o)
			}
		}
	}
	mi := 0
	for _, o := range offs {
		// first model record with start >= o
		if len(img) <= 8192 {
			for mi < len(model) && int(model[mi].off) < o {
				mi++
			}
		} else {
			mi = 0
			for mi < len(model) && int(model[mi].off) < o {
				mi++
			}
		}
		off, got, err := mr.SeekNext(uint64(o))
		c.Obs("seeknext_offsets_checked", 1)
		prevEndsInPrefix := mi > 0 && mi < len(model) && endsInMarkerPrefix(model[mi-1].data) && o < int(model[mi].off)
		pf := ""
		if prevEndsInPrefix {
			pf = "/record-before-ends-in-marker-prefix"
		}
		if mi >= len(model) {
			if !errors.Is(err, io.EOF) {
				c.Violate("recordio/seeknext/no-eof-past-last-record"+feat, "%s: SeekNext(%d) = (%d,%s,%v) want EOF (last record starts before)\nprog: %v", cfg, o, off, fw.Hex(got), err, prog)
				return
			}
			continue
		}
		want := model[mi]
		if err != nil {
			sig := "recordio/seeknext/error"
			if errors.Is(err, io.EOF) {
				sig = "recordio/seeknext/spurious-eof"
			}
			c.Violate(sig+pf+feat, "%s: SeekNext(%d) returned %v; want record %d at %d\nprog: %v", cfg, o, err, mi, want.off, prog)
			return
		}
		if off != want.off || !sameRec(got, want.data) {
			c.Violate("recordio/seeknext/wrong-record"+pf+feat, "%s: SeekNext(%d) = (off %d, %s) want (off %d, %s) = record %d\nprog: %v", cfg, o, off, fw.Hex(got), want.off, fw.Hex(want.data), mi, prog)
			return
		}
	}
}
