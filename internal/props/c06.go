package props

import (
	"fmt"
	"os"
	"path/filepath"
	"sort"
	"strings"
	"time"

	"github.com/thomasjungblut/go-sstables/simpledb"
	"github.com/thomasjungblut/go-sstables/skiplist"
	"github.com/thomasjungblut/go-sstables/sstables"

	"verif/internal/fw"
	"verif/internal/gen"
)

// C06 — compaction never changes what a key reads as; deleted keys stay deleted; the selected subset is a
// gap-free run in age order.

func init() {
	fw.Register(&fw.Prop{
		ID: "C06",
		Meta: func(tier string) fw.Meta {
			n := 1000
			if tier == "thorough" {
				n = 25000
			}
			return fw.Meta{N: n, Level: "exploration", Chunk: 5, CaseTimeoutS: 240, MinNT: 80,
				Rule:        "one case = one lineage: 3..8 tables built through forced rotations with controlled size classes (tiny / ~1 KiB / ~4 KiB) and tombstone ratios (0 / some / mostly), including tombstones in newer tables over values in older, larger ones and overwrites across tables; one lineage in eight sits on top of a legacy-format fixture table (no metadata, reports 0 records); compaction settings (max size {1,300,1000,3000,huge} x ratio {0,0.2,0.5,1} x threshold {0,1,2}) redrawn at every reopen so that prefix / suffix / middle-run / everything / nothing selections occur; around EVERY compaction cycle all keys are read before and after (must be identical and equal to the model), the returned selection must be a contiguous run of the live tables in age order and the live list afterwards must be the old list with that run collapsed into one table in place; then more writes, cycles and reopens. Non-trivial: a cycle merged >=2 tables while excluding the oldest live table, or merged tables holding tombstones; distinct by lineage hash One lineage in a hundred carries a value of 1..2 MiB in every table.",
				MinObs:      map[string]int64{"values_of_a_mebibyte_or_more_sent_through_compactions": 5, "cycles_checked": 800, "cycles_that_merged": 300, "cycles_excluding_oldest": 30, "cycles_selecting_middle_run": 8, "tombstone_shadowing_older_value": 300, "reads_compared": 30000, "reopens": 200},
				Assumptions: []string{"only the gap-free-run requirement of the selection is judged, not the selection policy itself"},
			}
		},
		Run: runC06,
	})
}

func runC06(c *fw.Case) {
	r := c.R
	nk := 4 + r.Intn(12)
	var keys []string
	for i := 0; i < nk; i++ {
		keys = append(keys, fmt.Sprintf("key%02d", i))
	}
	model := map[string]string{}
	draw := func() dbOptSet {
		return dbOptSet{Memstore: 1 << 30, Threshold: gen.Pick(r, 0, 0, 1, 2), MaxSize: gen.Pick(r, uint64(1), 300, 1000, 3000, 1<<40),
			Ratio: gen.Pick(r, float32(0), 0.2, 0.5, 1), ReadBuf: gen.Pick(r, uint64(64), 4096), WriteBuf: gen.Pick(r, uint64(64), 4096)}
	}
	opts := draw()
	mixedCriteria := r.Intn(6) == 0
	if mixedCriteria {
		opts.MaxSize, opts.Ratio, opts.Threshold = gen.Pick(r, uint64(300), 1000), gen.Pick(r, float32(0.2), 0.5), gen.Pick(r, 0, 1)
		c.Obs("lineages_mixing_size_and_ratio_criteria", 1)
	}
	var trace []string
	note := func(f string, a ...any) {
		trace = append(trace, fmt.Sprintf(f, a...))
		if len(trace) > 30 {
			trace = trace[1:]
		}
	}
	var db *simpledb.DB
	open := func() bool {
		d, err := simpledb.NewSimpleDB(c.Dir, opts.Options()...)
		if err == nil {
			err = d.Open()
		}
		if err != nil {
			c.Violate("compaction/open-error", "Open failed: %v [%s]\n%v", err, opts, trace)
			return false
		}
		db = d
		return true
	}
	ctx := func() string { return fmt.Sprintf("[%s]\nlineage: %s", opts, strings.Join(trace, "; ")) }
	readAll := func() (map[string]string, bool) {
		out := map[string]string{}
		for _, k := range keys {
			v, found, err := dbGet(db, k)
			c.Obs("reads_compared", 1)
			if err != nil {
				c.Violate("compaction/get-error", "Get(%q): %v\n%s", k, err, ctx())
				return nil, false
			}
			if found {
				out[k] = v
			}
		}
		return out, true
	}
	diff := func(got, want map[string]string) (string, string) {
		for _, k := range keys {
			g, gok := got[k]
			w, wok := want[k]
			switch {
			case gok && !wok:
				return "deleted-key-readable-again", fmt.Sprintf("key %s reads %s, expected not found", k, short(g))
			case !gok && wok:
				return "live-key-lost", fmt.Sprintf("key %s is not found, expected %s", k, short(w))
			case g != w:
				return "stale-or-wrong-value", fmt.Sprintf("key %s reads %s, expected %s", k, short(g), short(w))
			}
		}
		return "", ""
	}
	seq := 0
	// buildTable writes one table's worth of mutations and rotates.
	tablesBuilt := 0
	buildTable := func() bool {
		size := gen.Pick(r, 0, 1, 2) // tiny / ~1KiB / ~4KiB
		tomb := gen.Pick(r, 0, 1, 2) // none / some / mostly
		if tablesBuilt == 0 && r.Intn(2) == 0 && !mixedCriteria {
			size, tomb = 2, 0 // a big, tombstone-free oldest table is what a size limit excludes
		}
		if mixedCriteria && tablesBuilt < 3 {
			// small (selected by size) / large without tombstones (selected by nothing) / large and mostly
			// tombstones (selected by ratio): the middle one must be pulled in by the gap filling
			size, tomb = []int{0, 2, 2}[tablesBuilt], []int{0, 0, 2}[tablesBuilt]
		}
		tablesBuilt++
		nrec := 1 + r.Intn(4)
		vlen := 8
		switch size {
		case 1:
			nrec, vlen = 3+r.Intn(4), 250
		case 2:
			nrec, vlen = 4+r.Intn(6), 700
		}
		puts, dels := 0, 0
		used := map[string]bool{}
		bigAndMostlyTombstones := mixedCriteria && tablesBuilt == 3 // (tablesBuilt was already incremented)
		if bigAndMostlyTombstones {
			nrec = len(keys)
		}
		for i := 0; i < nrec; i++ {
			k := keys[r.Intn(len(keys))]
			if bigAndMostlyTombstones {
				k = keys[i]
			}
			if used[k] {
				continue
			}
			used[k] = true
			del := (tomb == 1 && r.Intn(3) == 0) || (tomb == 2 && r.Intn(4) > 0)
			if bigAndMostlyTombstones {
				del = i >= 2 // two big values, everything else deleted: above the size limit AND above the ratio
			}
			if del {
				if _, live := model[k]; live {
					c.Obs("tombstone_shadowing_older_value", 1)
				}
				if err := db.Delete(k); err != nil {
					c.Violate("compaction/delete-error", "%v", err)
					return false
				}
				delete(model, k)
				dels++
			} else {
				seq++
				v := fmt.Sprintf("g%d-%s", seq, strings.Repeat("v", vlen+r.Intn(vlen)))
				if c.Idx%100 == 13 && puts == 0 {
					// every table of this lineage carries one value of a mebibyte or more (beyond every pooled buffer size)
					v = fmt.Sprintf("g%d-", seq) + string(gen.Bytes(r, gen.Pick(r, 1<<20-40, 1<<20, 1<<20+1, 3<<19, 2<<20)))
					c.Obs("values_of_a_mebibyte_or_more_sent_through_compactions", 1)
				}
				if err := db.Put(k, v); err != nil {
					c.Violate("compaction/put-error", "%v", err)
					return false
				}
				model[k] = v
				puts++
			}
		}
		if r.Intn(6) == 0 {
			// deleting the EMPTY key is accepted: its tombstone is the first record of the table that is flushed next
			if err := db.Delete(""); err == nil {
				c.Obs("tables_starting_with_the_empty_key_tombstone", 1)
				note("Delete(\"\")")
				c.HashAdd("empty-key-tombstone")
			}
		}
		if err := db.VerifForceRotate(); err != nil {
			c.Violate("compaction/rotate-error", "%v", err)
			return false
		}
		if !waitFlushIdle(60 * time.Second) {
			c.Inconclusive("flusher did not become idle")
			return false
		}
		note("table(size%d puts=%d dels=%d)", size, puts, dels)
		c.HashAdd("table", size, tomb, puts, dels)
		return true
	}
	base := func(ts []simpledb.VerifTable) []string {
		var out []string
		for _, t := range ts {
			out = append(out, filepath.Base(t.BasePath))
		}
		return out
	}
	nontrivial := false
	cycle := func() bool {
		before := db.VerifLiveTables()
		bnames := base(before)
		r0, ok := readAll()
		if !ok {
			return false
		}
		if kind, d := diff(r0, model); kind != "" {
			c.Violate("compaction/read-wrong-before-cycle/"+kind, "%s\n%s", d, ctx())
			return false
		}
		md, err := db.VerifCompactOnce()
		c.Obs("cycles_checked", 1)
		if err != nil {
			c.Violate("compaction/cycle-error", "compaction cycle failed: %v\n%s", err, ctx())
			return false
		}
		after := db.VerifLiveTables()
		anames := base(after)
		if md == nil {
			note("cycle(nothing of %d)", len(bnames))
			if strings.Join(anames, ",") != strings.Join(bnames, ",") {
				c.Violate("compaction/live-list-changed-without-selection", "live tables %v -> %v although nothing was selected\n%s", bnames, anames, ctx())
				return false
			}
		} else {
			sel := append([]string{}, md.SstablePaths...)
			sort.Strings(sel)
			// find the run
			start := -1
			for i, n := range bnames {
				if n == sel[0] {
					start = i
				}
			}
			contiguous := start >= 0 && start+len(sel) <= len(bnames)
			if contiguous {
				for i := range sel {
					if bnames[start+i] != sel[i] {
						contiguous = false
					}
				}
			}
			note("cycle(%d..%d of %d)", start, start+len(sel)-1, len(bnames))
			if !contiguous {
				c.Violate("compaction/selection-not-a-gap-free-run", "selected %v out of live tables %v (age order)\n%s", sel, bnames, ctx())
				return false
			}
			if md.ReplacementPath == sel[0] {
				c.Obs("replacement_is_oldest_of_run", 1)
			}
			// the run must have collapsed into ONE table that sits where the run was; the tables outside the run keep
			// their names and order (how the merged table is named is the implementation's business)
			okList := len(anames) == len(bnames)-len(sel)+1
			if okList {
				for i := 0; i < start; i++ {
					okList = okList && anames[i] == bnames[i]
				}
				for i := start + len(sel); i < len(bnames); i++ {
					okList = okList && anames[i-len(sel)+1] == bnames[i]
				}
			}
			if !okList {
				c.Violate("compaction/live-list-mismatch", "live tables after the cycle %v; expected %v with the run %v collapsed into one table in place\n%s", anames, bnames, sel, ctx())
				return false
			}
			c.Obs("cycles_that_merged", 1)
			hasTomb := false
			for i := range sel {
				if before[start+i].MetaData.NullValues > 0 {
					hasTomb = true
				}
			}
			if start > 0 && len(sel) >= 2 {
				c.Obs("cycles_excluding_oldest", 1)
				nontrivial = true
				if start+len(sel) < len(bnames) {
					c.Obs("cycles_selecting_middle_run", 1)
				}
			}
			if hasTomb && len(sel) >= 2 {
				nontrivial = true
			}
		}
		r1, ok := readAll()
		if !ok {
			return false
		}
		if kind, d := diff(r1, r0); kind != "" {
			c.Violate("compaction/changed-read/"+kind, "a compaction cycle changed a read: %s\n%s", d, ctx())
			return false
		}
		return true
	}
	// one lineage in eight starts on top of a table of the LEGACY format (no metadata file; the repository ships fixtures):
	// such a table reports zero records and zero bytes, yet it holds data that compactions must carry along
	if rd := os.Getenv("VERIF_REPO_DIR"); rd != "" && r.Intn(8) == 0 {
		src := filepath.Join(rd, "sstables", "test_files", "v0_compat", "SimpleWriteHappyPathSSTable")
		dst := filepath.Join(c.Dir, "sstable_000000000000001")
		if copyDir(src, dst) == nil {
			if lr, err := sstables.NewSSTableReader(sstables.ReadBasePath(dst), sstables.ReadWithKeyComparator(skiplist.BytesComparator{})); err == nil {
				if it, err := lr.Scan(); err == nil {
					for {
						k, v, err := it.Next()
						if err != nil {
							break
						}
						keys = append(keys, string(k))
						if len(v) > 0 {
							model[string(k)] = string(v)
						}
					}
				}
				_ = lr.Close()
				c.Obs("lineages_on_a_legacy_base_table", 1)
				c.HashAdd("legacy-base")
				note("legacy-format base table (%d keys)", len(model))
			} else {
				_ = os.RemoveAll(dst)
			}
		}
	}
	if !open() {
		return
	}
	ntab := 3 + r.Intn(6)
	for i := 0; i < ntab; i++ {
		if !buildTable() {
			return
		}
	}
	rounds := 3 + r.Intn(6)
	wipeOut := r.Intn(8) == 0 // a lineage in which everything gets deleted: compactions then produce and re-select EMPTY tables
	if wipeOut {
		c.Obs("lineages_with_wipe_out", 1)
		opts.Threshold = 0
	}
	for i := 0; i < rounds; i++ {
		if wipeOut && i == 1 {
			for _, k := range keys {
				if err := db.Delete(k); err != nil {
					c.Violate("compaction/delete-error", "%v", err)
					return
				}
				delete(model, k)
			}
			if err := db.VerifForceRotate(); err != nil || !waitFlushIdle(60*time.Second) {
				c.Inconclusive("rotation after wipe-out did not complete")
				return
			}
			note("table(all keys deleted)")
			c.HashAdd("wipe-out")
			// everything selected incl. the oldest -> empty table; then the empty table is selected again
			if !cycle() || !cycle() || !cycle() {
				return
			}
		}
		switch r.Intn(5) {
		case 0, 1:
			if !cycle() {
				return
			}
		case 2:
			if !buildTable() {
				return
			}
			if !cycle() {
				return
			}
		case 3: // reopen with new compaction settings
			if err := db.Close(); err != nil {
				c.Violate("compaction/close-error", "%v\n%s", err, ctx())
				return
			}
			opts = draw()
			note("reopen[%s]", opts)
			c.HashAdd("reopen", opts.String())
			if !open() {
				return
			}
			c.Obs("reopens", 1)
			got, ok := readAll()
			if !ok {
				return
			}
			if kind, d := diff(got, model); kind != "" {
				c.Violate("compaction/read-wrong-after-reopen/"+kind, "%s\n%s", d, ctx())
				return
			}
			if !cycle() {
				return
			}
		default:
			// two cycles back to back (repeated cycles)
			if !cycle() || !cycle() {
				return
			}
		}
	}
	got, ok := readAll()
	if ok {
		if kind, d := diff(got, model); kind != "" {
			c.Violate("compaction/read-wrong-at-end/"+kind, "%s\n%s", d, ctx())
		}
	}
	if err := db.Close(); err != nil && !c.Violated() {
		c.Violate("compaction/close-error", "%v\n%s", err, ctx())
	}
	if nontrivial {
		c.Nontrivial()
	}
	if c.Idx%50 == 0 {
		c.Sample(map[string]any{"keys": nk, "lineage": trace, "last_options": opts.String()})
	}
}
