package props

import (
	"fmt"
	"sort"
	"strings"

	"verif/internal/fw"
)

// C02 — acknowledged writes survive a process kill at any instant (synchronous WAL).
// C13 — asynchronous WAL: a kill loses only a suffix of recent writes.
// Both use the E2 engine (e2.go): strace log -> crash image at every mutating system call -> fresh Open + read-all.

func e2Report(c *fw.Case, sum *e2Summary, label string) {
	c.Obs("sessions_traced", 1)
	c.Obs("operations_traced", int64(sum.ops))
	c.Obs("fs_mutations", int64(sum.mutations))
	c.Obs("crash_images", int64(sum.images))
	c.Obs("distinct_images_recovered", int64(sum.judged))
	c.Obs("images_judged_after_continuation", int64(sum.contJudged))
	c.Obs("sessions_with_concurrent_clients", int64(sum.concurrent))
	c.Obs("puts_through_a_reused_caller_buffer", int64(sum.scratchPuts))
	c.ObsMax("max_calls_in_flight_at_once", int64(sum.maxInflight))
	for ph, n := range sum.byPhase {
		// an image can lie inside several activities at once (e.g. a flush during Close while a compaction runs)
		for _, part := range strings.Split(ph, "+") {
			c.Obs("images_in_phase_"+part, int64(n))
		}
	}
	for _, s := range sum.inconclusive {
		c.Inconclusive(s)
		break
	}
	var sigs []string
	for s := range sum.verdicts {
		sigs = append(sigs, s)
	}
	sort.Strings(sigs)
	for _, s := range sigs {
		c.Violate(s, "%s [%d images with this signature in this session]\n%s", label, sum.verdictCount[s], sum.verdicts[s].detail)
	}
	if sum.judged >= 50 {
		c.Nontrivial()
	}
	c.SetUnits(int64(max(sum.judged, 1)), int64(sum.judged))
	c.Sample(map[string]any{"session": label, "operations": sum.ops, "fs_mutations": sum.mutations, "images": sum.images, "distinct_recovered": sum.judged, "by_phase": sum.byPhase})
}

func init() {
	fw.Register(&fw.Prop{
		ID: "C02",
		Meta: func(tier string) fw.Meta {
			n := 6
			if tier == "thorough" {
				n = 90
			}
			return fw.Meta{N: n, Level: "fault_enumeration", Chunk: 1, CaseTimeoutS: 900, MinNT: 3, Workers: 3,
				Rule:        "one case = one traced session (strace -f) of 2..3 open/operate/close rounds, 40..150 Put/Delete each on 8 keys, memstore {100,150,1024} bytes, write buffers {32,64,256,4MiB}, compactor ticking at 1..5 ms with thresholds 0..2, occasional forced rotations; every 6th session instead writes a few incompressible values of 4.3..6 MiB (larger than the 4 MiB WAL buffer, so one synchronous append is several write calls and a kill can cut it); INV/ACK markers of every operation are system calls in the same log. The log is replayed into an in-memory file system (close at entry, everything else at completion; the final replayed image must equal the real directory); after EVERY mutating call (create, write, truncate, rename, unlink, mkdir, rmdir) of any thread the state is one crash image; runs of unlinks in one directory are additionally permuted (other directory listing orders). Every distinct (image, acknowledged state) is materialised and opened by a fresh process: Open must succeed and every key must read model(acked) or model(acked + the one operation in flight); every 4th image is additionally continued (put, delete, Close, Open) and read again, which must match the model with the same continuation. evaluations = distinct images recovered; non-trivial = session with >=50 distinct images; the evidence lists images per phase (open/close/flush/compaction/operations) One put in three is handed over in ONE reused 96-byte caller buffer per key (rewritten only while no flush is running and after the call was announced in the log).",
				MinObs:      map[string]int64{"puts_through_a_reused_caller_buffer": 5, "sessions_traced": 3, "distinct_images_recovered": 1500, "images_in_phase_flush": 100, "images_in_phase_compaction": 30, "images_in_phase_open": 20, "images_in_phase_close": 20, "sessions_with_values_larger_than_the_wal_buffer": 1, "images_with_cut_wal_record": 1},
				Assumptions: []string{"kill -9 model of the statement: every completed system call is retained, a single write is not torn, no power loss", "schedules are those that occurred in the traced sessions; other directory listing orders are emulated for unlink runs only"},
			}
		},
		Run: func(c *fw.Case) {
			seed := fw.CaseSeed("C02-session", c.Seed, c.Idx)
			bigSync := c.Idx%6 == 5 // values of 4.3..6 MiB: one synchronous append = several write(2) calls
			c.HashAdd("sync", seed, bigSync)
			directSync := c.Idx%6 == 2 // the second session asks for the direct-I/O WAL without the async option
			if directSync {
				c.Obs("sessions_asking_for_a_direct_io_wal_in_sync_mode", 1)
			}
			sum := e2RunSession(c, e2Config{mode: "sync", seed: seed, nkeys: 8, bigSync: bigSync, directSync: directSync})
			if bigSync {
				c.Obs("sessions_with_values_larger_than_the_wal_buffer", 1)
				c.Obs("images_with_cut_wal_record", int64(sum.cutWal))
			}
			e2Report(c, sum, fmt.Sprintf("sync-WAL session seed=%d bigValues=%v", seed, bigSync))
		},
	})
}

func init() {
	fw.Register(&fw.Prop{
		ID: "C13",
		Meta: func(tier string) fw.Meta {
			n := 6
			if tier == "thorough" {
				n = 60
			}
			return fw.Meta{N: n, Level: "fault_enumeration", Chunk: 1, CaseTimeoutS: 1200, MinNT: 3, Workers: 3,
				Rule:        "one case = one traced session with EnableAsyncWAL: cases 0 mod 3 log 90..130 incompressible values of 64..256 KiB (memstore 16 MiB) so that the 4 MiB WAL buffer wraps several times and buffer flushes cut records; the other cases are small-memstore sessions with many rotations (as in C02). Crash image after every mutating system call; a fresh process must Open it and the content must equal the reference map after SOME prefix p of the invoked operation sequence with L <= p, where L = number of operations acknowledged before the creation of the newest WAL file that precedes the image (= before the last memstore rotation). evaluations = distinct images recovered; non-trivial = session with >=50 images The last session of every second small run is driven by three concurrent clients with disjoint keys; images of that phase are judged per client (state at the begin of the phase + a prefix of that client's calls that contains all its durable ones) unless the whole state is a prefix of the calls before the phase.",
				MinObs:      map[string]int64{"sessions_traced": 3, "distinct_images_recovered": 1000, "big_sessions": 1, "images_with_cut_wal_record": 2, "big_sessions_with_direct_io_wal": 1},
				Assumptions: []string{"kill -9 model as in C02", "an operation that was invoked but not acknowledged may be the last element of the prefix"},
			}
		},
		Run: func(c *fw.Case) {
			seed := fw.CaseSeed("C13-session", c.Seed, c.Idx)
			big := c.Idx%3 == 0
			c.HashAdd("async", seed, big)
			if big {
				c.Obs("big_sessions", 1)
			}
			// every second big session logs through the direct-I/O WAL writer (block-aligned 4 MiB writes, zero-padded tail)
			direct := big && c.Idx%6 == 3
			if direct {
				c.Obs("big_sessions_with_direct_io_wal", 1)
			}
			sum := e2RunSession(c, e2Config{mode: "async", seed: seed, nkeys: 8, big: big, directWAL: direct})
			c.Obs("images_with_cut_wal_record", int64(sum.cutWal))
			e2Report(c, sum, fmt.Sprintf("async-WAL session seed=%d big=%v", seed, big))
		},
	})
}
