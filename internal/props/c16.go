package props

import (
	"bytes"
	"errors"
	"fmt"
	"math/rand"
	"sort"

	"github.com/thomasjungblut/go-sstables/pq"
	"github.com/thomasjungblut/go-sstables/skiplist"

	"verif/internal/fw"
	"verif/internal/gen"
)

// C16 — skip-list map = sorted map; priority queue = sorted k-way merge.
// Cases [0,70): the 5 913 permutations of 1..7 keys, partitioned by index (exhaustive sub-space).
// Cases [70,N): seeded random insertion orders (up to 2 000 keys) and seeded priority-queue inputs.

const c16PermCases = 70

type revIntCmp struct{}

func (revIntCmp) Compare(a, b int) int {
	if a < b {
		return 1
	} else if a > b {
		return -1
	}
	return 0
}

// diffIntCmp and memcmpCmp are consistent comparators whose results are not limited to -1/0/+1.
type diffIntCmp struct{}

func (diffIntCmp) Compare(a, b int) int { return a - b }

type memcmpCmp struct{}

func (memcmpCmp) Compare(a, b []byte) int {
	for i := 0; i < len(a) && i < len(b); i++ {
		if a[i] != b[i] {
			return int(a[i]) - int(b[i])
		}
	}
	return (len(a) - len(b)) * 7
}

func init() {
	fw.Register(&fw.Prop{
		ID: "C16",
		Meta: func(tier string) fw.Meta {
			n := c16PermCases + 3000
			if tier == "thorough" {
				n = c16PermCases + 100000
			}
			return fw.Meta{N: n, Level: "exploration", Chunk: 25, CaseTimeoutS: 120, MinNT: 100,
				Rule: "cases 0..69 enumerate all 5913 insertion orders of 1..7 distinct keys (exhaustive for that sub-space, each under the int / difference-valued int and the reversed-int comparator, and once more with a lookup of the NEXT key before every insert); " +
					"remaining cases are seeded: odd = skip list with 2..2000 keys in random order, lookups interleaved with the inserts in two thirds of them (checked against the set inserted so far; byte keys through one reused probe buffer), all probe keys and a probe-pair sample for between-iterators incl. absent bounds and lo>hi; " +
					"even = priority queue over 0..8 ascending inputs of length 0..50 with duplicate keys across inputs, a quarter of the inputs signalling exhaustion with an error that wraps Done. Non-trivial: >=2 keys (skip list) or >=2 non-empty inputs sharing >=1 key (queue); distinct by hash of the insertion order / input lists",
				MinObs:      map[string]int64{"perms_checked": 5913, "between_iterators_checked": 1000, "pq_elements_checked": 1000, "lo_gt_hi_rejected": 50, "lookups_between_inserts": 10000, "pq_inputs_ending_with_wrapped_done": 100},
				Assumptions: []string{"comparators are consistent total orders", "keys inserted into the skip list are distinct (documented REQUIRES)"},
			}
		},
		Run: runC16,
	})
}

func runC16(c *fw.Case) {
	if c.Idx < c16PermCases {
		cnt := 0
		dnt := int64(0)
		for n := 1; n <= 7; n++ {
			gen.Perms(n, func(p []int) {
				if cnt%c16PermCases == c.Idx {
					keys := make([]int, len(p))
					for i, v := range p {
						keys[i] = v*10 + 5
					}
					c16SkipInt(c, keys, false, true, 0)
					c16SkipInt(c, keys, true, true, 0)
					c16SkipInt(c, keys, false, false, 1)
					c.Obs("perms_checked", 1)
					if n >= 2 {
						dnt++
					}
				}
				cnt++
			})
		}
		c.HashAdd("perm-partition", c.Idx)
		c.Nontrivial()
		c.SetUnits(c.GetObs("perms_checked"), dnt)
		if c.Idx == 0 {
			c.Sample(map[string]any{"kind": "all permutations of 1..7 keys, partition 0 of 70", "example_insertion_order": []int{25, 5, 15}})
		}
		return
	}
	if c.Idx%2 == 1 {
		// random skip list
		n := 2 + c.R.Intn(40)
		if c.R.Intn(12) == 0 {
			n = 200 + c.R.Intn(1800)
		}
		switch c.R.Intn(3) {
		case 0:
			perm := c.R.Perm(n)
			keys := make([]int, n)
			for i, v := range perm {
				keys[i] = v*3 - n // negative and positive
			}
			c.HashAdd("int", fmt.Sprint(keys))
			c16SkipInt(c, keys, c.R.Intn(2) == 0, n <= 40, c.R.Intn(3))
			if c.Idx < c16PermCases+8 {
				c.Sample(map[string]any{"kind": "skiplist-int", "n": n, "first_inserted": keys[:min(8, n)]})
			}
		case 1:
			ks := gen.AscendingKeys(c.R, n, gen.Pick(c.R, 0, 1, 2, 3, 4))
			if c.R.Intn(4) == 0 {
				ks = c16PrefixFamily(c.R, min(n, 60))
				c.Obs("key_sets_that_are_prefixes_of_one_buffer", 1)
			}
			c.R.Shuffle(len(ks), func(i, j int) { ks[i], ks[j] = ks[j], ks[i] })
			c16SkipBytes(c, ks)
		default:
			ks := gen.AscendingKeys(c.R, n, gen.Pick(c.R, 0, 1, 3))
			c.R.Shuffle(len(ks), func(i, j int) { ks[i], ks[j] = ks[j], ks[i] })
			c16SkipString(c, ks)
		}
		c.Nontrivial()
		return
	}
	c16PQ(c)
}

func c16Check[K any](c *fw.Case, name string, m skiplist.MapI[K, int], cmp skiplist.Comparator[K], sorted []K, valOf func(K) int, probes []K, allPairs bool) {
	if m.Size() != len(sorted) {
		c.Violate("skiplist/size", "%s: Size()=%d want %d", name, m.Size(), len(sorted))
	}
	present := func(p K) (int, bool) {
		i := sort.Search(len(sorted), func(i int) bool { return cmp.Compare(sorted[i], p) >= 0 })
		return i, i < len(sorted) && cmp.Compare(sorted[i], p) == 0
	}
	var exhausted skiplist.IteratorI[K, int] // the iterator drained before the current one: its caller may still poll it
	drain := func(it skiplist.IteratorI[K, int]) ([]K, bool) {
		var out []K
		if exhausted != nil {
			// a drained iterator stays drained, whatever was created on the map since — and polling it takes nothing
			// away from the iterator that is about to be read
			if _, _, err := exhausted.Next(); !errors.Is(err, skiplist.Done) {
				c.Violate("skiplist/done-not-sticky/after-another-iterator-was-created", "%s: an iterator that had returned Done returned %v after a new iterator was created on the map", name, err)
			}
			c.Obs("drained_iterators_polled_after_a_new_one_was_created", 1)
		}
		defer func() { exhausted = it }()
		for {
			k, v, err := it.Next()
			if err != nil {
				if !errors.Is(err, skiplist.Done) {
					c.Violate("skiplist/iter-error", "%s: iterator error %v", name, err)
					return out, false
				}
				// Done must be sticky
				if _, _, err2 := it.Next(); !errors.Is(err2, skiplist.Done) {
					c.Violate("skiplist/done-not-sticky", "%s: Next after Done returned %v", name, err2)
				}
				return out, true
			}
			if v != valOf(k) {
				c.Violate("skiplist/iter-value", "%s: iterator value %d for key %v want %d", name, v, k, valOf(k))
			}
			out = append(out, k)
			if len(out) > len(sorted)+2 {
				c.Violate("skiplist/iter-too-long", "%s: iterator returned more than %d entries", name, len(sorted))
				return out, false
			}
		}
	}
	same := func(got, want []K) bool {
		if len(got) != len(want) {
			return false
		}
		for i := range got {
			if cmp.Compare(got[i], want[i]) != 0 {
				return false
			}
		}
		return true
	}
	for _, p := range probes {
		i, ok := present(p)
		if m.Contains(p) != ok {
			c.Violate("skiplist/contains", "%s: Contains(%v)=%v want %v", name, p, !ok, ok)
		}
		v, err := m.Get(p)
		if ok {
			if err != nil || v != valOf(p) {
				c.Violate("skiplist/get", "%s: Get(%v)=(%d,%v) want (%d,nil)", name, p, v, err, valOf(p))
			}
		} else if !errors.Is(err, skiplist.NotFound) {
			c.Violate("skiplist/get-absent", "%s: Get(absent %v)=(%d,%v) want NotFound", name, p, v, err)
		}
		it, err := m.IteratorStartingAt(p)
		if err != nil {
			c.Violate("skiplist/starting-at-error", "%s: IteratorStartingAt(%v): %v", name, p, err)
		} else if got, fin := drain(it); fin && !same(got, sorted[i:]) {
			c.Violate("skiplist/starting-at", "%s: IteratorStartingAt(%v) returned %d entries, want %d", name, p, len(got), len(sorted)-i)
		}
		c.Obs("probes_checked", 1)
	}
	it, err := m.Iterator()
	if err != nil {
		c.Violate("skiplist/iterator-error", "%s: Iterator(): %v", name, err)
	} else if got, fin := drain(it); fin && !same(got, sorted) {
		c.Violate("skiplist/full-iterator", "%s: full iterator returned %v want %v", name, got, sorted)
	}
	pair := func(lo, hi K) {
		it, err := m.IteratorBetween(lo, hi)
		if cmp.Compare(lo, hi) > 0 {
			if err == nil {
				c.Violate("skiplist/between-lo-gt-hi-accepted", "%s: IteratorBetween(%v,%v) with lower>upper was not rejected", name, lo, hi)
			} else {
				c.Obs("lo_gt_hi_rejected", 1)
			}
			return
		}
		if err != nil {
			c.Violate("skiplist/between-error", "%s: IteratorBetween(%v,%v): %v", name, lo, hi, err)
			return
		}
		a, _ := present(lo)
		b := sort.Search(len(sorted), func(i int) bool { return cmp.Compare(sorted[i], hi) > 0 })
		var want []K
		if a < b {
			want = sorted[a:b]
		}
		if got, fin := drain(it); fin && !same(got, want) {
			c.Violate("skiplist/between", "%s: IteratorBetween(%v,%v) returned %v want %v", name, lo, hi, got, want)
		}
		c.Obs("between_iterators_checked", 1)
	}
	if allPairs {
		for _, lo := range probes {
			for _, hi := range probes {
				pair(lo, hi)
			}
		}
	} else {
		for i := 0; i < 300; i++ {
			pair(probes[c.R.Intn(len(probes))], probes[c.R.Intn(len(probes))])
		}
	}
}

// inter: 0 = build, then probe; 1 = before every insert look up the key that is inserted NEXT (absent at that moment);
// 2 = seeded lookups (present, about to be inserted, neighbours) between the inserts. Every interleaved lookup is
// compared with the set inserted so far: a map must not carry state from a lookup into a later insert.
func c16SkipInt(c *fw.Case, keys []int, reversed bool, allPairs bool, inter int) {
	var cmp skiplist.Comparator[int] = skiplist.OrderedComparator[int]{}
	name := "int"
	if reversed {
		cmp = revIntCmp{}
		name = "int-reversed"
	} else if (len(keys)+keys[0])%2 == 0 {
		cmp = diffIntCmp{}
		name = "int-difference-comparator"
	}
	m := skiplist.NewSkipListMap[int, int](cmp)
	if inter != 0 {
		name += fmt.Sprintf("-interleaved%d", inter)
	}
	have := map[int]bool{}
	look := func(p int) {
		c.Obs("lookups_between_inserts", 1)
		v, err := m.Get(p)
		if have[p] {
			if err != nil || v != p*7+1 || !m.Contains(p) {
				c.Violate("skiplist/interleaved/get", "%s: after inserting %d keys Get(%d)=(%d,%v) want (%d,nil)", name, len(have), p, v, err, p*7+1)
			}
		} else if !errors.Is(err, skiplist.NotFound) || m.Contains(p) {
			c.Violate("skiplist/interleaved/get-absent", "%s: after inserting %d keys Get(absent %d)=(%d,%v)", name, len(have), p, v, err)
		}
	}
	for i, k := range keys {
		switch inter {
		case 1:
			if i+1 < len(keys) {
				look(keys[i+1])
			}
		case 2:
			for n := c.R.Intn(3); n > 0; n-- {
				switch c.R.Intn(3) {
				case 0:
					look(keys[min(len(keys)-1, i+1+c.R.Intn(2))])
				case 1:
					look(keys[c.R.Intn(i+1)])
				default:
					look(keys[c.R.Intn(len(keys))] + c.R.Intn(3) - 1)
				}
			}
		}
		m.Insert(k, k*7+1)
		have[k] = true
	}
	sorted := append([]int{}, keys...)
	sort.Slice(sorted, func(i, j int) bool { return cmp.Compare(sorted[i], sorted[j]) < 0 })
	probeSet := map[int]bool{}
	for _, k := range keys {
		probeSet[k] = true
		probeSet[k-1] = true
		probeSet[k+1] = true
	}
	var probes []int
	for p := range probeSet {
		probes = append(probes, p)
	}
	sort.Ints(probes)
	if len(probes) > 120 {
		c.R.Shuffle(len(probes), func(i, j int) { probes[i], probes[j] = probes[j], probes[i] })
		probes = probes[:120]
	}
	c16Check[int](c, name, m, cmp, sorted, func(k int) int { return k*7 + 1 }, probes, allPairs)
}

func c16SkipBytes(c *fw.Case, ks [][]byte) {
	cmp := skiplist.BytesComparator{}
	m := skiplist.NewSkipListMap[[]byte, int](cmp)
	val := func(k []byte) int { return len(k)*31 + int(sumBytes(k)) }
	inter := c.R.Intn(2) == 0
	probeBuf := make([]byte, 0, 64) // lookups go through ONE reused buffer that is overwritten right afterwards
	have := map[string]bool{}
	for i, k := range ks {
		c.HashAdd(k)
		if inter {
			for n := c.R.Intn(3); n > 0; n-- {
				p := ks[min(len(ks)-1, i+c.R.Intn(3))]
				if c.R.Intn(3) == 0 {
					p = ks[c.R.Intn(i+1)]
				}
				probeBuf = append(probeBuf[:0], p...)
				v, err := m.Get(probeBuf)
				c.Obs("lookups_between_inserts", 1)
				if have[string(p)] {
					if err != nil || v != val(p) {
						c.Violate("skiplist/interleaved/get", "bytes: after inserting %d keys Get(%x)=(%d,%v) want (%d,nil)", len(have), p, v, err, val(p))
					}
				} else if !errors.Is(err, skiplist.NotFound) {
					c.Violate("skiplist/interleaved/get-absent", "bytes: after inserting %d keys Get(absent %x)=(%d,%v)", len(have), p, v, err)
				}
				for j := range probeBuf {
					probeBuf[j] ^= 0x5a
				}
			}
		}
		m.Insert(k, val(k))
		have[string(k)] = true
	}
	sorted := append([][]byte{}, ks...)
	sort.Slice(sorted, func(i, j int) bool { return cmp.Compare(sorted[i], sorted[j]) < 0 })
	var probes [][]byte
	probes = append(probes, []byte{}, []byte{0xff, 0xff, 0xff, 0xff})
	for _, k := range ks {
		probes = append(probes, k)
		probes = append(probes, gen.Neighbours(k)...)
	}
	if len(probes) > 150 {
		c.R.Shuffle(len(probes), func(i, j int) { probes[i], probes[j] = probes[j], probes[i] })
		probes = probes[:150]
	}
	c16Check[[]byte](c, "bytes", m, cmp, sorted, val, probes, len(ks) <= 12)
	if c.Idx < c16PermCases+40 {
		c.Sample(map[string]any{"kind": "skiplist-bytes", "n": len(ks), "first_inserted": fw.Hex(ks[0])})
	}
}

func c16SkipString(c *fw.Case, ks [][]byte) {
	cmp := skiplist.OrderedComparator[string]{}
	m := skiplist.NewSkipListMap[string, int](cmp)
	val := func(k string) int { return len(k)*31 + int(sumBytes([]byte(k))) }
	var ss []string
	for _, k := range ks {
		c.HashAdd("str", k)
		m.Insert(string(k), val(string(k)))
		ss = append(ss, string(k))
	}
	sorted := append([]string{}, ss...)
	sort.Strings(sorted)
	probes := []string{"", "\xff\xff\xff\xff\xff"}
	for _, k := range ks {
		probes = append(probes, string(k))
		for _, nb := range gen.Neighbours(k) {
			probes = append(probes, string(nb))
		}
	}
	if len(probes) > 150 {
		c.R.Shuffle(len(probes), func(i, j int) { probes[i], probes[j] = probes[j], probes[i] })
		probes = probes[:150]
	}
	c16Check[string](c, "string", m, cmp, sorted, val, probes, len(ks) <= 12)
}

func sumBytes(b []byte) (s uint32) {
	for _, x := range b {
		s = s*131 + uint32(x)
	}
	return s % 100003
}

// ---- priority queue

type c16Elem struct {
	key []byte
	id  int // unique
}

type c16Iter struct {
	ctx     int
	elems   []c16Elem
	pos     int
	wrapEnd bool // signals exhaustion with an error that WRAPS Done (errors.Is is the documented way to test for it)
}

func (it *c16Iter) Next() ([]byte, int, error) {
	if it.pos >= len(it.elems) {
		if it.wrapEnd {
			return nil, 0, fmt.Errorf("input %d has no more elements: %w", it.ctx, pq.Done)
		}
		return nil, 0, pq.Done
	}
	e := it.elems[it.pos]
	it.pos++
	return e.key, e.id, nil
}
func (it *c16Iter) Context() int { return it.ctx }

// c16PrefixFamily returns n distinct keys that are all slices of ONE buffer starting at the same address
// (base[:1], base[:2], ...): equal start, different lengths, ascending in byte order
func c16PrefixFamily(r *rand.Rand, n int) [][]byte {
	base := gen.Bytes(r, n)
	var ks [][]byte
	for i := 1; i <= n; i++ {
		ks = append(ks, base[:i])
	}
	return ks
}

// el0id re-uses the first id of a replaced input list (ids stay unique and dense) and gives the surplus back
func el0id(el []c16Elem, next *int) int {
	if len(el) == 0 {
		*next++
		return *next - 1
	}
	*next = el[0].id + 1
	return el[0].id
}

func c16PQ(c *fw.Case) {
	k := c.R.Intn(9)
	universe := gen.AscendingKeys(c.R, 4+c.R.Intn(60), gen.Pick(c.R, 0, 1, 3, 4))
	if c.R.Intn(4) == 0 {
		universe = c16PrefixFamily(c.R, len(universe))
		c.Obs("key_sets_that_are_prefixes_of_one_buffer", 1)
	} else if c.R.Intn(2) == 0 && len(universe[0]) != 0 {
		universe = append([][]byte{{}}, universe...)
	}
	blocky := c.R.Intn(3) == 0
	if blocky {
		c.Obs("pq_cases_with_inputs_made_of_long_runs", 1)
	}
	// one case in six: exactly three inputs — one holds a long run of the smallest keys and then runs dry while the
	// other two (in either order) interleave above it
	threeWay := !blocky && c.R.Intn(5) == 0 && len(universe) >= 16
	if threeWay {
		k = 3
		c.Obs("pq_three_way_cases_with_a_leading_run", 1)
	}
	runLen := 7 + c.R.Intn(6)
	slotOfRun := c.R.Intn(3)
	var iters []pq.IteratorWithContext[[]byte, int, int]
	var inputs [][]c16Elem
	id := 0
	keyCount := map[string]int{}
	nonEmpty := 0
	for i := 0; i < k; i++ {
		n := c.R.Intn(51)
		if c.R.Intn(5) == 0 {
			n = 0
		}
		if n > len(universe) {
			n = len(universe)
		}
		idxs := c.R.Perm(len(universe))[:n]
		if blocky {
			// this input takes whole runs of consecutive keys (it wins many times in a row, then another input takes over)
			idxs = idxs[:0]
			for pos := c.R.Intn(4); pos < len(universe); {
				run := 1 + c.R.Intn(12)
				for j := 0; j < run && pos < len(universe); j++ {
					idxs = append(idxs, pos)
					pos++
				}
				pos += c.R.Intn(3 * (k + 1))
			}
			n = len(idxs)
		}
		if threeWay {
			idxs = idxs[:0]
			if i == slotOfRun {
				for pos := 0; pos < runLen && pos < len(universe); pos++ {
					idxs = append(idxs, pos)
				}
			} else {
				for pos := runLen; pos < len(universe); pos++ {
					if (pos+i)%2 == 0 || c.R.Intn(4) == 0 {
						idxs = append(idxs, pos)
					}
				}
			}
			n = len(idxs)
		}
		sort.Ints(idxs)
		var el []c16Elem
		for _, ix := range idxs {
			el = append(el, c16Elem{key: universe[ix], id: id})
			keyCount[string(universe[ix])]++
			id++
			c.HashAdd(i, universe[ix])
		}
		if n > 0 {
			nonEmpty++
		}
		if c.R.Intn(4) == 0 && len(universe) > 0 && len(universe[0]) == 0 {
			// an input that holds nothing but the empty key (the zero value of the key type as the LAST element of its input)
			el = []c16Elem{{key: universe[0], id: el0id(el, &id)}}
			c.Obs("pq_inputs_holding_only_the_empty_key", 1)
		}
		inputs = append(inputs, el)
		// context deliberately not equal to the position in the slice
		wrapEnd := c.R.Intn(4) == 0
		if wrapEnd {
			c.Obs("pq_inputs_ending_with_wrapped_done", 1)
		}
		iters = append(iters, &c16Iter{ctx: 100 + i*3, elems: el, wrapEnd: wrapEnd})
		c.HashAdd("|")
	}
	dups := 0
	for _, n := range keyCount {
		if n > 1 {
			dups++
		}
	}
	var qcmp skiplist.Comparator[[]byte] = skiplist.BytesComparator{}
	if c.R.Intn(2) == 0 {
		qcmp = memcmpCmp{}
		c.Obs("pq_with_difference_comparator", 1)
	}
	q, err := pq.NewPriorityQueue[[]byte, int, int](qcmp, iters)
	if err != nil {
		c.Violate("pq/init-error", "NewPriorityQueue: %v", err)
		return
	}
	// the slice handed to the constructor belongs to the caller: half of the cases reuse it right away
	if c.R.Intn(2) == 0 {
		for i := range iters {
			iters[i] = &c16Iter{ctx: -7}
		}
		c.Obs("pq_caller_slice_overwritten_after_construction", 1)
	}
	seen := map[int]bool{}
	next := make([]int, k) // per input: next expected position
	var prev []byte
	havePrev := false
	total := 0
	for {
		key, v, ctx, err := q.Next()
		if err != nil {
			if !errors.Is(err, pq.Done) {
				c.Violate("pq/next-error", "Next: %v", err)
			}
			break
		}
		total++
		if total > id+1 {
			c.Violate("pq/too-many", "queue returned more than %d elements", id)
			break
		}
		if havePrev && bytes.Compare(prev, key) > 0 {
			c.Violate("pq/descending", "key %x after %x", key, prev)
		}
		prev, havePrev = key, true
		if (ctx-100)%3 != 0 || (ctx-100)/3 < 0 || (ctx-100)/3 >= k {
			c.Violate("pq/bad-context", "context %d does not name an input", ctx)
			continue
		}
		in := (ctx - 100) / 3
		if seen[v] {
			c.Violate("pq/duplicate", "element id %d returned twice", v)
		}
		seen[v] = true
		if next[in] >= len(inputs[in]) || inputs[in][next[in]].id != v || string(inputs[in][next[in]].key) != string(key) {
			c.Violate("pq/wrong-attribution", "element (key %x, id %d) attributed to input %d, which expects position %d", key, v, in, next[in])
		} else {
			next[in]++
		}
		c.Obs("pq_elements_checked", 1)
	}
	if len(seen) != id && !c.Violated() {
		c.Violate("pq/lost", "queue returned %d of %d elements", len(seen), id)
	}
	if _, _, _, err := q.Next(); !errors.Is(err, pq.Done) {
		c.Violate("pq/done-not-sticky", "Next after Done returned %v", err)
	}
	if nonEmpty >= 2 && dups >= 1 {
		c.Nontrivial()
	}
	c.Obs("pq_queues", 1)
	if c.Idx < c16PermCases+8 {
		var lens []int
		for _, in := range inputs {
			lens = append(lens, len(in))
		}
		c.Sample(map[string]any{"kind": "priority-queue", "input_lengths": lens, "keys_shared_by_inputs": dups})
	}
}
