package props

import (
	"bytes"
	"errors"
	"fmt"
	"sort"

	"github.com/thomasjungblut/go-sstables/skiplist"
	"github.com/thomasjungblut/go-sstables/sstables"

	"verif/internal/fw"
	"verif/internal/gen"
)

// C03 — an SSTable answers like a sorted map, for every index loader and option.

type kv struct {
	k, v []byte
}

func init() {
	fw.Register(&fw.Prop{
		ID: "C03",
		Meta: func(tier string) fw.Meta {
			n := 700
			if tier == "thorough" {
				n = 16000
			}
			return fw.Meta{N: n, Level: "exploration", Chunk: 10, CaseTimeoutS: 300, MinNT: 150,
				Rule:        "one case = one generated table (0..300 strictly ascending keys from families fixed-width/random/shared-prefix/marker-laden/short-with-empty-key/4-byte/20-byte, optionally a 1-4 KiB last key that dominates the index; values nil/empty/up to 2 KiB incl. marker-laden, occasionally 4..7 KiB and 32..41 KiB) written by the stream writer or the skip-list writer under data x index compression (4x4), bloom sizing {default, 1, 1e6, fp 0.5}, write buffers {16,37,4096,default}; opened with every applicable index loader (slice, skip list, disk; map only when all keys are exactly 4 or 20 bytes) and read buffers {16,37,4096,default}; Contains/Get on every key and its neighbours (prefix, extension, +-1), \"\", below min, above max; full Scan; ScanStartingAt and ScanRange on probe samples incl. lo==hi, bounds between keys, both below min / above max and lo>hi (must be rejected); half of the evaluations pass all probe keys and bounds through reused buffers that are refilled for the next call. evaluations = (table, loader) pairs; non-trivial = >=2 keys; distinct by content hash + loader In the reused-buffer evaluations the bytes behind every key/bound argument in the caller's buffer are marked and must be unchanged after the call.",
				MinObs:      map[string]int64{"get_contains_probes": 50000, "range_scans_checked": 5000, "loader_disk": 100, "loader_slice": 100, "loader_skiplist": 100, "loader_map": 20, "lo_gt_hi_rejected": 200, "written_keys_found": 10000, "dominating_last_key_tables": 20},
				Assumptions: []string{"map loader only within its documented domain (fixed 4/20-byte keys, probes of the same length)"},
			}
		},
		Run: runC03,
	})
}

func c03Value(c *fw.Case) []byte {
	r := c.R
	switch r.Intn(8) {
	case 0:
		return nil
	case 1:
		return []byte{}
	case 2:
		switch r.Intn(12) {
		case 0:
			return gen.Compressible(r, 4097+r.Intn(3000)) // beyond one read of an lzw stream
		case 1:
			return gen.Compressible(r, 32769+r.Intn(9000)) // beyond one read of a gzip stream
		}
		return gen.Payload(r, 2048)
	default:
		return gen.Payload(r, 40)
	}
}

// buildTable writes kvs with the real writer into dir; returns a config description.
func c03Write(c *fw.Case, dir string, kvs []kv, dataComp, idxComp int) (string, error) {
	r := c.R
	opts := []sstables.WriterOption{sstables.WriteBasePath(dir), sstables.WithKeyComparator(skiplist.BytesComparator{}),
		sstables.DataCompressionType(dataComp), sstables.IndexCompressionType(idxComp)}
	bloom := r.Intn(4)
	switch bloom {
	case 1:
		opts = append(opts, sstables.BloomExpectedNumberOfElements(1))
	case 2:
		opts = append(opts, sstables.BloomExpectedNumberOfElements(1000000))
	case 3:
		opts = append(opts, sstables.BloomFalsePositiveProbability(0.5), sstables.BloomExpectedNumberOfElements(uint64(len(kvs)+1)))
	}
	wbuf := gen.Pick(r, 16, 37, 4096, 0)
	if wbuf != 0 {
		opts = append(opts, sstables.WriteBufferSizeBytes(wbuf))
	}
	simple := r.Intn(3) == 0
	cfg := fmt.Sprintf("data=%d index=%d bloom=%d wbuf=%d simpleWriter=%v", dataComp, idxComp, bloom, wbuf, simple)
	c.HashAdd("cfg", dataComp, idxComp, bloom, wbuf, simple)
	if simple {
		sl := skiplist.NewSkipListMap[[]byte, []byte](skiplist.BytesComparator{})
		perm := r.Perm(len(kvs))
		for _, i := range perm {
			sl.Insert(kvs[i].k, kvs[i].v)
		}
		w, err := sstables.NewSSTableSimpleWriter(opts...)
		if err != nil {
			return cfg, err
		}
		return cfg, w.WriteSkipListMap(sl)
	}
	w, err := sstables.NewSSTableStreamWriter(opts...)
	if err != nil {
		return cfg, err
	}
	if err := w.Open(); err != nil {
		return cfg, err
	}
	for _, e := range kvs {
		if err := w.WriteNext(e.k, e.v); err != nil {
			_ = w.Close()
			return cfg, fmt.Errorf("WriteNext(%s): %w", fw.Hex(e.k), err)
		}
	}
	return cfg, w.Close()
}

// cloneVal copies a value, keeping nil and empty apart
func cloneVal(v []byte) []byte {
	if v == nil {
		return nil
	}
	return append([]byte{}, v...)
}

func drainSST(it sstables.SSTableIteratorI, max int) ([]kv, error) {
	var out []kv
	for {
		k, v, err := it.Next()
		if err != nil {
			if errors.Is(err, sstables.Done) {
				return out, nil
			}
			return out, err
		}
		out = append(out, kv{append([]byte{}, k...), v})
		if len(out) > max {
			return out, fmt.Errorf("iterator returned more than %d entries", max)
		}
	}
}

func sameKVs(got, want []kv) string {
	if len(got) != len(want) {
		return fmt.Sprintf("%d entries, want %d", len(got), len(want))
	}
	for i := range got {
		if !bytes.Equal(got[i].k, want[i].k) {
			return fmt.Sprintf("entry %d has key %s want %s", i, fw.Hex(got[i].k), fw.Hex(want[i].k))
		}
		if !sameRec(got[i].v, want[i].v) {
			return fmt.Sprintf("entry %d (key %s) has value %s want %s", i, fw.Hex(got[i].k), fw.Hex(got[i].v), fw.Hex(want[i].v))
		}
	}
	return ""
}

var (
	c03SharedSlice = &sstables.SliceKeyIndexLoader{ReadBufferSize: 4096}
	c03SharedSkip  = &sstables.SkipListIndexLoader{KeyComparator: skiplist.BytesComparator{}, ReadBufferSize: 4096}
	c03SharedDisk  = &sstables.DiskIndexLoader{}
)

func runC03(c *fw.Case) {
	r := c.R
	fam := gen.Pick(r, 0, 1, 2, 3, 4, 5, 6, 7)
	n := r.Intn(40)
	switch r.Intn(6) {
	case 0:
		n = r.Intn(4)
	case 1:
		n = 100 + r.Intn(200)
	}
	if r.Intn(60) == 0 {
		n = 2000 + r.Intn(3000) // "thousands"
		c.Obs("tables_with_thousands_of_keys", 1)
	}
	keys := gen.AscendingKeys(r, n, fam)
	dominating := false
	if len(keys) > 0 && fam != 5 && fam != 6 && r.Intn(5) == 0 {
		// one last key of 1-4 KiB that dominates the index file
		big := append(append([]byte{}, keys[len(keys)-1]...), gen.Bytes(r, 1024+r.Intn(3072))...)
		keys = append(keys, big)
		dominating = true
		c.Obs("dominating_last_key_tables", 1)
	}
	var kvs []kv
	for _, k := range keys {
		v := c03Value(c)
		kvs = append(kvs, kv{k, v})
		c.HashAdd(k, v, v == nil)
	}
	dataComp, idxComp := r.Intn(4), r.Intn(4)
	cfg, err := c03Write(c, c.Dir, kvs, dataComp, idxComp)
	cfg = fmt.Sprintf("%s keys=%d family=%d dominatingLastKey=%v", cfg, len(kvs), fam, dominating)
	if err != nil {
		c.Violate("sstable/write-error", "%s: writing a strictly ascending sequence failed: %v", cfg, err)
		return
	}
	// probes
	probeSet := map[string]bool{"": true, "\xff\xff\xff\xff\xff\xff": true, "\x00": true}
	for i, k := range keys {
		if len(keys) > 80 && i%((len(keys)/60)+1) != 0 && i != 0 && i != len(keys)-1 {
			continue
		}
		probeSet[string(k)] = true
		for _, nb := range gen.Neighbours(k) {
			probeSet[string(nb)] = true
		}
	}
	var probes [][]byte
	for p := range probeSet {
		probes = append(probes, []byte(p))
	}
	sort.Slice(probes, func(i, j int) bool { return bytes.Compare(probes[i], probes[j]) < 0 })
	model := map[string]int{}
	for i, e := range kvs {
		model[string(e.k)] = i
	}

	type ld struct {
		name string
		l    sstables.IndexLoader
	}
	rbuf := gen.Pick(r, 16, 37, 4096, 4*1024*1024)
	loaders := []ld{
		{"slice", &sstables.SliceKeyIndexLoader{ReadBufferSize: rbuf}},
		{"skiplist", &sstables.SkipListIndexLoader{KeyComparator: skiplist.BytesComparator{}, ReadBufferSize: rbuf}},
		{"disk", &sstables.DiskIndexLoader{}},
		{"default", nil},
	}
	if c.Idx%2 == 1 {
		// every other table is opened through loader VALUES that already loaded the tables of earlier cases in this
		// process (a loader is configuration: what it loaded before must not matter)
		loaders[0].l, loaders[1].l, loaders[2].l = c03SharedSlice, c03SharedSkip, c03SharedDisk
		c.Obs("tables_opened_through_loader_values_used_before", 1)
	}
	if fam == 5 && !dominating {
		loaders = append(loaders, ld{"map", &sstables.MapKeyIndexLoader[[4]byte]{ReadBufferSize: rbuf, Mapper: &sstables.Byte4KeyMapper{}}})
	}
	if fam == 6 && !dominating {
		loaders = append(loaders, ld{"map", &sstables.MapKeyIndexLoader[[20]byte]{ReadBufferSize: rbuf, Mapper: &sstables.Byte20KeyMapper{}}})
	}
	units := int64(0)
	for _, L := range loaders {
		if c.Violated() {
			break
		}
		units++
		c.Obs("loader_"+L.name, 1)
		ropts := []sstables.ReadOption{sstables.ReadBasePath(c.Dir), sstables.ReadWithKeyComparator(skiplist.BytesComparator{}), sstables.ReadBufferSizeBytes(rbuf)}
		if L.l != nil {
			ropts = append(ropts, sstables.ReadIndexLoader(L.l))
		}
		if r.Intn(3) == 0 {
			ropts = append(ropts, sstables.SkipHashCheckOnLoad(), sstables.EnableHashCheckOnReads())
		}
		feat := "/" + L.name
		rd, err := sstables.NewSSTableReader(ropts...)
		if err != nil {
			c.Violate("sstable/open-error"+feat, "%s rbuf=%d: NewSSTableReader failed on a freshly written table: %v", cfg, rbuf, err)
			continue
		}
		lprobes := probes
		if L.name == "map" {
			lprobes = nil
			for _, p := range probes {
				if len(keys) > 0 && len(p) == len(keys[0]) {
					lprobes = append(lprobes, p)
				}
			}
		}
		c03Probe(c, rd, kvs, model, lprobes, cfg, feat)
		if err := rd.Close(); err != nil {
			c.Violate("sstable/close-error"+feat, "%s: %v", cfg, err)
		}
	}
	if len(kvs) >= 2 {
		c.Nontrivial()
		c.SetUnits(units, units)
	} else {
		c.SetUnits(units, 0)
	}
	if c.Idx%100 == 0 {
		s := map[string]any{"config": cfg}
		if len(kvs) > 0 {
			s["first_key"] = fw.Hex(kvs[0].k)
			s["last_key"] = fw.Hex(kvs[len(kvs)-1].k)
		}
		c.Sample(s)
	}
}

func c03Probe(c *fw.Case, rd sstables.SSTableReaderI, kvs []kv, model map[string]int, probes [][]byte, cfg, feat string) {
	r := c.R
	lowerBound := func(p []byte) int {
		return sort.Search(len(kvs), func(i int) bool { return bytes.Compare(kvs[i].k, p) >= 0 })
	}
	// half of the evaluations hand every probe key and bound over in reused buffers that are refilled for the next call
	// (and overwritten once the call, or the iterator it returned, is finished): a reader must not remember its caller's slices
	reuse := r.Intn(2) == 0
	if reuse {
		c.Obs("evaluations_probing_through_reused_key_buffers", 1)
	}
	bufA, bufB := make([]byte, 0, 64), make([]byte, 0, 64)
	for i := 0; i < 64; i++ {
		bufA[:64][i], bufB[:64][i] = 0xEE, 0xEE
	}
	arg := func(buf *[]byte, p []byte) []byte {
		if !reuse || len(p) == 0 {
			return p
		}
		*buf = append((*buf)[:0], p...)
		// what lies behind the argument in the caller's buffer is the caller's: it is marked, and looked at after the call
		for i, sp := 0, (*buf)[len(*buf):cap(*buf)]; i < len(sp); i++ {
			sp[i] = 0xA5
		}
		return *buf
	}
	spareTouched := func() string {
		for _, b := range [][]byte{bufA, bufB} {
			for i, x := range b[len(b):cap(b)] {
				if x != 0xA5 && x != 0xEE {
					return fmt.Sprintf("byte %d behind a %d byte argument now reads %02x", i, len(b), x)
				}
			}
		}
		return ""
	}
	scribble := func() {
		if reuse && !c.Violated() {
			if why := spareTouched(); why != "" {
				c.Violate("sstable/caller-buffer-written-behind-the-argument"+feat, "%s: a call wrote into its caller's buffer beyond the key or bound it was given: %s", cfg, why)
			}
		}
		for i := range bufA[:cap(bufA)] {
			bufA[:cap(bufA)][i] = 0xEE
		}
		for i := range bufB[:cap(bufB)] {
			bufB[:cap(bufB)][i] = 0xEE
		}
	}
	for _, p := range probes {
		idx, ok := model[string(p)]
		got, err := rd.Contains(arg(&bufA, p))
		c.Obs("get_contains_probes", 1)
		if err != nil {
			c.Violate("sstable/contains-error"+feat, "%s: Contains(%s): %v", cfg, fw.Hex(p), err)
			return
		}
		if got != ok {
			sig := "sstable/contains-false-positive"
			if ok {
				sig = "sstable/written-key-not-found"
			}
			c.Violate(sig+feat, "%s: Contains(%s)=%v want %v", cfg, fw.Hex(p), got, ok)
			return
		}
		v, err := rd.Get(arg(&bufA, p))
		if r.Intn(4) == 0 {
			scribble()
		}
		if ok {
			if err != nil {
				sig := "sstable/get-error"
				if errors.Is(err, sstables.NotFound) {
					sig = "sstable/written-key-not-found"
				}
				c.Violate(sig+feat, "%s: Get(%s) of a written key: %v", cfg, fw.Hex(p), err)
				return
			}
			if !sameRec(v, kvs[idx].v) {
				c.Violate("sstable/get-wrong-value"+feat, "%s: Get(%s)=%s want %s", cfg, fw.Hex(p), fw.Hex(v), fw.Hex(kvs[idx].v))
				return
			}
			c.Obs("written_keys_found", 1)
		} else if !errors.Is(err, sstables.NotFound) {
			c.Violate("sstable/unwritten-key-found"+feat, "%s: Get(%s) of an unwritten key = (%s,%v) want NotFound", cfg, fw.Hex(p), fw.Hex(v), err)
			return
		}
	}
	// full scan (twice: a second scanner must start from the beginning again)
	for round := 0; round < 2; round++ {
		it, err := rd.Scan()
		if err != nil {
			c.Violate("sstable/scan-error"+feat, "%s: Scan(): %v", cfg, err)
			return
		}
		got, err := drainSST(it, len(kvs)+1)
		if err != nil {
			c.Violate("sstable/scan-iter-error"+feat, "%s: Scan iterator: %v", cfg, err)
			return
		}
		if d := sameKVs(got, kvs); d != "" {
			c.Violate("sstable/scan-mismatch"+feat, "%s: Scan(): %s", cfg, d)
			return
		}
	}
	// two full scans of the same reader alive at once: the first is read half way, a second one is opened and drained,
	// then the first is finished — each must deliver the whole table
	if len(kvs) >= 2 {
		itA, errA := rd.Scan()
		var gotA []kv
		half := len(kvs) / 2
		for i := 0; errA == nil && i < half; i++ {
			k, v, err := itA.Next()
			if err != nil {
				errA = err
				break
			}
			gotA = append(gotA, kv{append([]byte{}, k...), cloneVal(v)})
		}
		itB, errB := rd.Scan()
		var gotB []kv
		if errB == nil {
			gotB, errB = drainSST(itB, len(kvs)+1)
		}
		if errA == nil {
			rest, err := drainSST(itA, len(kvs)+1)
			gotA, errA = append(gotA, rest...), err
		}
		c.Obs("simultaneous_full_scans", 1)
		if errA != nil || errB != nil {
			c.Violate("sstable/simultaneous-scans-iter-error"+feat, "%s: two full scans alive at once: first %v, second %v", cfg, errA, errB)
			return
		}
		if d := sameKVs(gotA, kvs) + sameKVs(gotB, kvs); d != "" {
			c.Violate("sstable/simultaneous-scans-mismatch"+feat, "%s: two full scans alive at once: %s", cfg, d)
			return
		}
	}
	if len(probes) == 0 {
		return
	}
	for i := 0; i < 25; i++ {
		p := probes[r.Intn(len(probes))]
		it, err := rd.ScanStartingAt(arg(&bufA, p))
		if err != nil {
			c.Violate("sstable/scan-starting-at-error"+feat, "%s: ScanStartingAt(%s): %v", cfg, fw.Hex(p), err)
			return
		}
		got, err := drainSST(it, len(kvs)+1)
		if err != nil {
			c.Violate("sstable/scan-starting-at-iter-error"+feat, "%s: ScanStartingAt(%s): %v", cfg, fw.Hex(p), err)
			return
		}
		scribble()
		if d := sameKVs(got, kvs[lowerBound(p):]); d != "" {
			c.Violate("sstable/scan-starting-at-mismatch"+feat, "%s: ScanStartingAt(%s): %s", cfg, fw.Hex(p), d)
			return
		}
		c.Obs("range_scans_checked", 1)
	}
	for i := 0; i < 45; i++ {
		lo := probes[r.Intn(len(probes))]
		hi := probes[r.Intn(len(probes))]
		switch i {
		case 0:
			hi = lo
		case 1:
			lo, hi = probes[0], probes[0] // both below/at min
		case 2:
			lo, hi = probes[len(probes)-1], probes[len(probes)-1]
		case 3:
			lo, hi = probes[0], probes[len(probes)-1]
		}
		it, err := rd.ScanRange(arg(&bufA, lo), arg(&bufB, hi))
		if bytes.Compare(lo, hi) > 0 {
			if err == nil {
				c.Violate("sstable/scan-range-lo-gt-hi-accepted"+feat, "%s: ScanRange(%s,%s) with lower>upper was not rejected", cfg, fw.Hex(lo), fw.Hex(hi))
				return
			}
			c.Obs("lo_gt_hi_rejected", 1)
			continue
		}
		if err != nil {
			c.Violate("sstable/scan-range-error"+feat, "%s: ScanRange(%s,%s): %v", cfg, fw.Hex(lo), fw.Hex(hi), err)
			return
		}
		got, err := drainSST(it, len(kvs)+1)
		if err != nil {
			c.Violate("sstable/scan-range-iter-error"+feat, "%s: ScanRange(%s,%s): %v", cfg, fw.Hex(lo), fw.Hex(hi), err)
			return
		}
		scribble()
		a := lowerBound(lo)
		b := sort.Search(len(kvs), func(i int) bool { return bytes.Compare(kvs[i].k, hi) > 0 })
		var want []kv
		if a < b {
			want = kvs[a:b]
		}
		if d := sameKVs(got, want); d != "" {
			where := ""
			if len(kvs) > 0 && bytes.Compare(hi, kvs[0].k) < 0 {
				where = "/upper-bound-below-min"
			}
			c.Violate("sstable/scan-range-mismatch"+where+feat, "%s: ScanRange(%s,%s): %s", cfg, fw.Hex(lo), fw.Hex(hi), d)
			return
		}
		c.Obs("range_scans_checked", 1)
	}
}
