package props

import (
	"fmt"
	"strings"
	"time"

	"github.com/thomasjungblut/go-sstables/simpledb"

	"verif/internal/fw"
	"verif/internal/gen"
)

// C01 — SimpleDB reads like a map, whatever flushes, compactions and restarts happen.

func init() {
	fw.Register(&fw.Prop{
		ID: "C01",
		Meta: func(tier string) fw.Meta {
			n := 500
			if tier == "thorough" {
				n = 12000
			}
			return fw.Meta{N: n, Level: "exploration", Chunk: 5, CaseTimeoutS: 240, MinNT: 100,
				Rule:        "one case = one seeded single-client program of 60..400 steps from {Put, Delete, Get, read-all, force-rotation, wait-flush-idle, one compaction cycle, Close+re-Open with a NEW option set} over 3..12 valid keys with unique values of 1..600 bytes; options per session from memstore {0,30,64,256,4096,1GiB} x file threshold {0,1,2,5} x max size {1,200,700,5GiB} x ratio {0,0.2,0.5,1} x read/write buffers {16,64,4096,4MiB} x WAL mode {sync, async (1 in 5)}. Even cases = driven schedule (compactor disabled, cycles placed by the program through the tag-guarded helpers), odd cases = live schedule (ticker 1..5 ms, size-triggered rotations). A third of the sessions is overwrite-heavy with tiny values so that the logged volume outgrows the memstore a hundredfold. Every mutation is read back, every rotation/compaction/reopen is followed by a read of all keys, compared with a Go map. A dead child (log.Panicf in flusher/compactor) is a violation. Non-trivial: >=1 flush, >=1 compaction that merged >=2 tables and >=1 reopen; distinct by program hash One case per thousand (index 6 mod 1000) is a bulk session: every option at its default, 150 MiB of incompressible 1 MiB values over 8 keys in ONE memstore generation, small last values and a delete, then two further clean sessions that only read. A third of the keys are not valid UTF-8 (keys are bytes).",
				MinObs:      map[string]int64{"bulk_sessions_bytes_logged_in_one_memstore_generation": 140000000, "reads_compared": 50000, "flushes": 500, "compactions_reflected": 100, "reopens": 300, "rotations_forced": 300, "sessions_overwrite_heavy": 30, "delete_then_compaction_excluding_oldest": 5},
				Assumptions: []string{"only valid (non-empty) keys and values, as the statement requires", "live-mode schedules are whatever the Go scheduler and the 1..5 ms ticker produce"},
			}
		},
		Run: runC01,
	})
}

type c01 struct {
	c       *fw.Case
	db      *simpledb.DB
	opts    dbOptSet
	model   map[string]string
	keys    []string
	trace   []string
	session int
	step    int
	live    bool
	lastOp  string
}

func (s *c01) note(f string, a ...any) {
	s.trace = append(s.trace, fmt.Sprintf(f, a...))
	if len(s.trace) > 40 {
		s.trace = s.trace[1:]
	}
}

func (s *c01) ctx() string {
	return fmt.Sprintf("session %d [%s] step %d\nlast ops: %s", s.session, s.opts, s.step, strings.Join(s.trace, "; "))
}

// check compares one key with the model; when names the observation point.
func (s *c01) check(k, when string) bool {
	v, found, err := dbGet(s.db, k)
	s.c.Obs("reads_compared", 1)
	want, ok := s.model[k]
	if err != nil {
		s.c.Violate("db/get-error/"+when, "Get(%q) failed: %v\n%s", k, err, s.ctx())
		return false
	}
	switch {
	case ok && !found:
		s.c.Violate("db/wrong-read/"+when+"/written-key-missing", "Get(%q) = not found, want %s\n%s", k, short(want), s.ctx())
		return false
	case !ok && found:
		s.c.Violate("db/wrong-read/"+when+"/deleted-or-absent-key-readable", "Get(%q) = %s, want not found\n%s", k, short(v), s.ctx())
		return false
	case ok && v != want:
		s.c.Violate("db/wrong-read/"+when+"/stale-or-wrong-value", "Get(%q) = %s, want %s\n%s", k, short(v), short(want), s.ctx())
		return false
	}
	return true
}

func (s *c01) checkAll(when string) bool {
	for _, k := range s.keys {
		if !s.check(k, when) {
			return false
		}
	}
	return true
}

func short(v string) string {
	if len(v) > 28 {
		return fmt.Sprintf("%q..(%d)", v[:28], len(v))
	}
	return fmt.Sprintf("%q", v)
}

func (s *c01) open() bool {
	db, err := simpledb.NewSimpleDB(s.c.Dir, s.opts.Options()...)
	if err != nil {
		s.c.Violate("db/new-error", "%v\n%s", err, s.ctx())
		return false
	}
	if err := db.Open(); err != nil {
		s.c.Violate("db/open-error", "Open failed on a cleanly closed (or fresh) directory: %v\n%s", err, s.ctx())
		return false
	}
	s.db = db
	return true
}

// c01Bulk: ONE memstore generation that receives far more log than any size the log might cut itself at (150 MiB of
// incompressible 1 MiB values over 8 keys with every option at its default), then small last values and a delete, a
// clean Close and two further clean sessions that only read.
func c01Bulk(c *fw.Case) {
	r := c.R
	s := &c01{c: c, model: map[string]string{}}
	for i := 0; i < 8; i++ {
		s.keys = append(s.keys, fmt.Sprintf("bulk%02d", i))
	}
	c.HashAdd("bulk")
	openDefault := func() bool {
		db, err := simpledb.NewSimpleDB(c.Dir)
		if err == nil {
			err = db.Open()
		}
		if err != nil {
			c.Violate("db/open-error", "Open with default options failed: %v\n%s", err, s.ctx())
			return false
		}
		s.db = db
		return true
	}
	if !openDefault() {
		return
	}
	var logged int64
	for s.step = 0; s.step < 150; s.step++ {
		k := s.keys[s.step%len(s.keys)]
		v := fmt.Sprintf("bulk.%d-", s.step) + string(gen.Bytes(r, 1<<20))
		s.note("Put(%s,%d bytes)", k, len(v))
		if err := s.db.Put(k, v); err != nil {
			c.Violate("db/op-error/put", "Put(%q) failed: %v\n%s", k, err, s.ctx())
			return
		}
		s.model[k] = v
		logged += int64(len(v))
	}
	for i, k := range s.keys {
		if i == 3 {
			s.note("Delete(%s)", k)
			if err := s.db.Delete(k); err != nil {
				c.Violate("db/op-error/delete", "Delete(%q) failed: %v\n%s", k, err, s.ctx())
				return
			}
			delete(s.model, k)
			continue
		}
		v := fmt.Sprintf("last-%d", i)
		s.note("Put(%s,%d bytes)", k, len(v))
		if err := s.db.Put(k, v); err != nil {
			c.Violate("db/op-error/put", "Put(%q) failed: %v\n%s", k, err, s.ctx())
			return
		}
		s.model[k] = v
	}
	c.Obs("bulk_sessions_bytes_logged_in_one_memstore_generation", logged)
	if !s.checkAll("end") {
		return
	}
	for i := 0; i < 2; i++ {
		s.note("Close")
		if err := s.db.Close(); err != nil {
			c.Violate("db/op-error/close", "Close failed: %v\n%s", err, s.ctx())
			return
		}
		s.session++
		s.note("Open[defaults]")
		if !openDefault() {
			return
		}
		c.Obs("reopens", 1)
		if !s.checkAll("after-reopen") {
			return
		}
	}
	if err := s.db.Close(); err != nil {
		c.Violate("db/op-error/close", "final Close failed: %v\n%s", err, s.ctx())
		return
	}
	c.Nontrivial()
}

func runC01(c *fw.Case) {
	if c.Idx%1000 == 6 {
		c01Bulk(c)
		return
	}
	r := c.R
	live := c.Idx%2 == 1
	s := &c01{c: c, model: map[string]string{}, live: live}
	nk := 3 + r.Intn(10)
	for i := 0; i < nk; i++ {
		switch i % 4 {
		case 1:
			s.keys = append(s.keys, fmt.Sprintf("k%02d\xc3(", i)) // a truncated multi-byte sequence: keys are bytes, not text
		case 3:
			s.keys = append(s.keys, fmt.Sprintf("\xff\x00k%02d", i))
		default:
			s.keys = append(s.keys, fmt.Sprintf("k%02d", i))
		}
	}
	s.opts = drawDBOpts(r, live)
	s.opts.Async = r.Intn(5) == 0 // clean close/open cycles must not depend on the WAL mode either
	heavy := r.Intn(3) == 0
	if heavy {
		s.opts.Memstore = gen.Pick(r, uint64(0), 30)
		c.Obs("sessions_overwrite_heavy", 1)
	}
	c.HashAdd("opts", s.opts.String(), heavy)
	if !s.open() {
		return
	}
	flush0 := simpledb.VerifPointCount("flusher.done")
	comp0 := simpledb.VerifPointCount("compaction.reflected")
	steps := 60 + r.Intn(340)
	reopens, mergedGE2 := 0, 0
	deletedSinceFlush := false
	for s.step = 0; s.step < steps; s.step++ {
		op := r.Intn(100)
		k := s.keys[r.Intn(len(s.keys))]
		c.HashAdd(op, k)
		switch {
		case op < 40: // Put
			n := 1 + r.Intn(20)
			if !heavy {
				n = gen.Pick(r, 1, 1+r.Intn(40), 1+r.Intn(600))
			}
			v := fmt.Sprintf("s%d.%d-", s.session, s.step)
			if len(v) < n {
				v += strings.Repeat("x", n-len(v))
			}
			s.note("Put(%s,%d bytes)", k, len(v))
			if err := s.db.Put(k, v); err != nil {
				c.Violate("db/op-error/put", "Put(%q) failed: %v\n%s", k, err, s.ctx())
				return
			}
			s.model[k] = v
			if !s.check(k, "after-put") {
				return
			}
		case op < 55: // Delete
			s.note("Delete(%s)", k)
			if err := s.db.Delete(k); err != nil {
				c.Violate("db/op-error/delete", "Delete(%q) failed: %v\n%s", k, err, s.ctx())
				return
			}
			delete(s.model, k)
			deletedSinceFlush = true
			if !s.check(k, "after-delete") {
				return
			}
		case op < 75:
			if !s.check(k, "get") {
				return
			}
		case op < 80:
			if !s.checkAll("read-all") {
				return
			}
		case op < 88: // forced rotation
			s.note("ForceRotate")
			if err := s.db.VerifForceRotate(); err != nil {
				c.Violate("db/op-error/rotate", "rotation failed: %v\n%s", err, s.ctx())
				return
			}
			c.Obs("rotations_forced", 1)
			if !s.checkAll("after-rotation") {
				return
			}
		case op < 91:
			s.note("WaitFlushIdle")
			if !waitFlushIdle(60 * time.Second) {
				c.Inconclusive("flusher did not become idle within the harness watchdog")
				return
			}
			if !s.checkAll("after-flush") {
				return
			}
		case op < 96 && !live: // one compaction cycle (driven schedule only)
			if r.Intn(2) == 0 && !waitFlushIdle(60*time.Second) {
				c.Inconclusive("flusher did not become idle within the harness watchdog")
				return
			}
			before := s.db.VerifLiveTables()
			md, err := s.db.VerifCompactOnce()
			if err != nil {
				c.Violate("db/op-error/compaction", "compaction cycle failed: %v\n%s", err, s.ctx())
				return
			}
			if md != nil {
				s.note("Compact(%d of %d tables)", len(md.SstablePaths), len(before))
				if len(md.SstablePaths) >= 2 {
					mergedGE2++
				}
				if len(before) > 0 && !strings.HasSuffix(before[0].BasePath, md.SstablePaths[0]) && deletedSinceFlush {
					c.Obs("delete_then_compaction_excluding_oldest", 1)
				}
			} else {
				s.note("Compact(nothing selected)")
			}
			if !s.checkAll("after-compaction") {
				return
			}
		case op < 96 && live:
			time.Sleep(time.Duration(1+r.Intn(3)) * time.Millisecond) // let the ticker fire
			if !s.checkAll("after-background-activity") {
				return
			}
		default: // close + reopen with a new option set
			s.note("Close")
			if err := s.db.Close(); err != nil {
				c.Violate("db/op-error/close", "Close failed: %v\n%s", err, s.ctx())
				return
			}
			s.session++
			reopens++
			s.opts = drawDBOpts(r, live)
			s.opts.Async = r.Intn(5) == 0
			if s.opts.Async {
				c.Obs("sessions_async_wal", 1)
			}
			heavy = r.Intn(3) == 0
			if heavy {
				s.opts.Memstore = gen.Pick(r, uint64(0), 30)
				c.Obs("sessions_overwrite_heavy", 1)
			}
			c.HashAdd("opts", s.opts.String(), heavy)
			s.note("Open[%s]", s.opts)
			if !s.open() {
				return
			}
			c.Obs("reopens", 1)
			deletedSinceFlush = false
			if !s.checkAll("after-reopen") {
				return
			}
		}
	}
	if !s.checkAll("end") {
		return
	}
	if err := s.db.Close(); err != nil {
		c.Violate("db/op-error/close", "final Close failed: %v\n%s", err, s.ctx())
		return
	}
	// one more clean restart with default-ish options: the answer must not depend on it
	s.session++
	s.opts = drawDBOpts(r, false)
	if !s.open() {
		return
	}
	ok := s.checkAll("after-final-reopen")
	if err := s.db.Close(); err != nil && ok {
		c.Violate("db/op-error/close", "Close after the final reopen failed: %v\n%s", err, s.ctx())
		return
	}
	fl := simpledb.VerifPointCount("flusher.done") - flush0
	cp := simpledb.VerifPointCount("compaction.reflected") - comp0
	c.Obs("flushes", fl)
	c.Obs("compactions_reflected", cp)
	if fl >= 1 && cp >= 1 && reopens >= 1 && (mergedGE2 >= 1 || live) {
		c.Nontrivial()
	}
	if c.Idx%60 < 2 {
		c.Sample(map[string]any{"schedule": map[bool]string{true: "live", false: "driven"}[live], "steps": steps, "keys": nk, "first_session_options": s.opts.String(), "flushes": fl, "compactions": cp, "reopens": reopens, "last_ops": s.trace[max(0, len(s.trace)-8):]})
	}
}
