package props

import (
	"bytes"
	"encoding/binary"
	"errors"
	"fmt"
	"io"
	"os"
	"path/filepath"

	"github.com/thomasjungblut/go-sstables/recordio"

	"verif/internal/fw"
	"verif/internal/gen"
	"verif/internal/rio"
)

// C12 — cut or header-damaged RecordIO files yield only genuine records, in order.

func init() {
	fw.Register(&fw.Prop{
		ID: "C12",
		Meta: func(tier string) fw.Meta {
			n := 120
			if tier == "thorough" {
				n = 4000
			}
			return fw.Meta{N: n, Level: "fault_enumeration", Chunk: 4, CaseTimeoutS: 300, MinNT: 40,
				Rule:        "one case = one generated file (1..12 records incl. nil/empty/0x00-leading/marker-laden payloads, 4 compression types, write buffers {8,64,4096}); on it: (a) every truncation length 0..size -> sequential reader must return exactly the records wholly inside the prefix then EOF/err, a second sequential program mixing SkipNext in must never READ anything but the written record of its position (every 4th case through the direct-I/O reader factory on a real file system)or, ReadNextAt(off_i) must return record i or an error; (b) every record-header byte (located by the harness's independent parser) x all 255 other values when the file has <= 6000 such variants, else bit flips + {00,ff,91,8d,4c,+1,-1} -> reading that record must fail in both readers, earlier records unaffected; (c) every file-header byte x 255 values that makes version outside 1..4 or compression > 3 -> Open must fail in both readers. evaluations = damaged copies; non-trivial = file with >=2 records whose damaged copies were all judged; distinct by file content hash Every other sequential reader is closed twice before the random-access pass.",
				MinObs:      map[string]int64{"sequential_readers_closed_twice_before_the_random_access_pass": 1000, "truncations_checked": 5000, "header_byte_alterations_checked": 20000, "file_header_alterations_rejected": 10000, "crc_last_byte_continuation_with_zero_payload_byte": 1},
				Assumptions: []string{"a damaged copy may be served only if every returned record equals the written one", "legacy versions 1..3 written into the file header are valid codes and not required to be rejected"},
			}
		},
		Run: runC12,
	})
}

func writeRio(path string, comp, wbuf int, recs [][]byte) ([]uint64, error) {
	opts := []recordio.FileWriterOption{recordio.Path(path), recordio.CompressionType(comp)}
	if wbuf != 0 {
		opts = append(opts, recordio.BufferSizeBytes(wbuf))
	}
	w, err := recordio.NewFileWriter(opts...)
	if err != nil {
		return nil, err
	}
	if err := w.Open(); err != nil {
		return nil, err
	}
	var offs []uint64
	for _, r := range recs {
		o, err := w.Write(r)
		if err != nil {
			return nil, err
		}
		offs = append(offs, o)
	}
	return offs, w.Close()
}

func runC12(c *fw.Case) {
	r := c.R
	comp := r.Intn(4)
	wbuf := gen.Pick(r, 8, 64, 4096)
	n := 1 + r.Intn(12)
	var recs [][]byte
	for i := 0; i < n; i++ {
		switch r.Intn(8) {
		case 0:
			recs = append(recs, nil)
		case 1:
			recs = append(recs, []byte{})
		case 2, 3: // payload starting with 0x00 (the varint continuation trap)
			p := gen.Payload(r, 40)
			p = append([]byte{0x00}, p...)
			if r.Intn(2) == 0 {
				p = append([]byte{0x00, 0x00}, p...)
			}
			recs = append(recs, p)
		default:
			recs = append(recs, gen.Payload(r, 200))
		}
	}
	// every 40th case: a file with ONE record of 512 KiB .. 1.2 MiB between small ones (beyond every pooled buffer size);
	// its cut lengths and header bytes are sampled instead of enumerated
	bigCase := c.Idx%40 == 17
	if bigCase {
		nb := gen.Pick(r, 512*1024+1, 1<<20, 1<<20+1, 1200*1024)
		big := bytes.Repeat(gen.Bytes(r, 1000), nb/1000+1)[:nb]
		recs = [][]byte{gen.Payload(r, 50), big, gen.Payload(r, 50), nil}
		wbuf = 4096
		c.Obs("files_with_a_record_of_half_a_mebibyte_or_more", 1)
	}
	for _, rec := range recs {
		c.HashAdd(rec, rec == nil)
	}
	c.HashAdd(comp, wbuf)
	orig := filepath.Join(c.Dir, "orig.rio")
	offs, err := writeRio(orig, comp, wbuf, recs)
	if err != nil {
		c.Violate("harness/write", "%v", err)
		return
	}
	img, err := os.ReadFile(orig)
	if err != nil {
		c.Violate("harness/read", "%v", err)
		return
	}
	pf, err := rio.Parse(img)
	if err != nil || len(pf.Recs) != len(recs) || pf.Tail != len(img) {
		c.Violate("harness/parse", "independent parser disagrees with the writer: %v recs=%d want %d tail=%d size=%d", err, len(pf.Recs), len(recs), pf.Tail, len(img))
		return
	}
	cfg := fmt.Sprintf("comp=%d wbuf=%d records=%d size=%d", comp, wbuf, len(recs), len(img))
	dmg := filepath.Join(c.Dir, "dmg.rio")
	directCase := c.Idx%4 == 0
	dmgDisk := ""
	if directCase {
		dmgDisk = filepath.Join(c.DiskDir(), "dmg.rio")
	}
	feat := ""
	if comp != 0 {
		feat = "/compressed"
	}
	units := int64(0)
	var keptSeq [][]byte

	// judge runs both readers over a damaged image. okUpTo = number of leading records that must be
	// returned unchanged; failAt = index of the record that must NOT be returned as data (-1: none);
	// after okUpTo records the reader may return EOF or any error, but never data unless allowMore.
	judge := func(kind string, data []byte, okUpTo int, mustFailAt int, what string) {
		units++
		if err := os.WriteFile(dmg, data, 0644); err != nil {
			c.Violate("harness/write-dmg", "%v", err)
			return
		}
		rd, err := recordio.NewFileReader(recordio.ReaderPath(dmg), recordio.ReaderBufferSizeBytes(gen.Pick(r, 16, 37, 4096)))
		if err == nil {
			err = rd.Open()
			if err == nil {
				i := 0
				keptSeq = keptSeq[:0]
				for {
					got, err := rd.ReadNext()
					if err != nil {
						if i < okUpTo {
							c.Violate("recordio/"+kind+"/seq/intact-record-lost"+feat, "%s %s: ReadNext #%d failed (%v) although records 0..%d are intact", cfg, what, i, err, okUpTo-1)
						}
						break
					}
					if i >= okUpTo {
						sig := "recordio/" + kind + "/seq/returned-data-for-damaged-record"
						if i < len(recs) && sameRec(got, recs[i]) && mustFailAt != i {
							// still the genuine record (damage did not touch it) — allowed only for truncation bookkeeping errors
							sig = "recordio/" + kind + "/seq/genuine-record-beyond-expectation"
						}
						c.Violate(sig+feat, "%s %s: ReadNext #%d returned %s; expected an error/EOF after %d intact records (written there: %s)", cfg, what, i, fw.Hex(got), okUpTo, hexOrNone(recs, i))
						break
					}
					if !sameRec(got, recs[i]) {
						c.Violate("recordio/"+kind+"/seq/wrong-record"+feat, "%s %s: ReadNext #%d = %s want %s", cfg, what, i, fw.Hex(got), fw.Hex(recs[i]))
						break
					}
					keptSeq = append(keptSeq, got)
					i++
					if i > len(recs)+1 {
						break
					}
				}
			} else if len(data) >= 8 && okUpTo >= 0 && kind != "file-header" {
				c.Violate("recordio/"+kind+"/seq/open-failed"+feat, "%s %s: Open failed: %v", cfg, what, err)
			}
			_ = rd.Close()
			// the returned slices were kept, not copied: they must still hold the genuine records after the call that
			// met the cut (or EOF) and after Close
			for k, g := range keptSeq {
				if !sameRec(g, recs[k]) {
					c.Violate("recordio/"+kind+"/seq/returned-record-changed-later"+feat, "%s %s: the slice ReadNext #%d returned read %s then and reads %s after the later calls and Close", cfg, what, k, fw.Hex(recs[k]), fw.Hex(g))
					break
				}
			}
			c.Obs("kept_returned_slices_compared_again", int64(len(keptSeq)))
			if units%2 == 0 {
				// the deferred-plus-explicit Close idiom: the second call may say "already closed", and no reader opened
				// afterwards may be affected by it
				_ = rd.Close()
				c.Obs("sequential_readers_closed_twice_before_the_random_access_pass", 1)
			}
		}
		// a second sequential pass that mixes SkipNext into the program (a skip returns no data, so it may succeed on a
		// record that is cut; whatever is READ afterwards must still be a written record at its position). For cut files of
		// every 4th case the pass runs through the direct-I/O reader factory on a real file system.
		if kind == "truncate" && len(data) >= 8 {
			path := dmg
			ropts := []recordio.FileReaderOption{recordio.ReaderBufferSizeBytes(gen.Pick(r, 16, 37, 4096))}
			viaDirect := directCase
			if viaDirect {
				path = dmgDisk
				if err := os.WriteFile(path, data, 0644); err != nil {
					viaDirect, path = false, dmg
				} else {
					ropts = []recordio.FileReaderOption{recordio.ReaderBufferSizeBytes(gen.Pick(r, 4096, 8192)), recordio.ReaderIoFactory(recordio.DirectIOFactory{})}
					c.Obs("cut_files_read_through_the_direct_io_reader", 1)
				}
			}
			rfeat := feat
			if viaDirect {
				rfeat += "/directio-reader"
			}
			if rd, err := recordio.NewFileReader(append(ropts, recordio.ReaderPath(path))...); err == nil {
				if rd.Open() == nil {
					prog := ""
					for i := 0; i <= len(recs)+1; i++ {
						if r.Intn(2) == 0 {
							prog += "s"
							if err := rd.SkipNext(); err != nil {
								break
							}
							c.Obs("skips_in_cut_files", 1)
							continue
						}
						prog += "r"
						got, err := rd.ReadNext()
						if err != nil {
							break
						}
						if i >= okUpTo || i >= len(recs) || !sameRec(got, recs[i]) {
							c.Violate("recordio/truncate/seq-with-skips/returned-data-for-damaged-record"+rfeat, "%s %s program %s: ReadNext at position %d returned %s; %d records are intact (written there: %s)", cfg, what, prog, i, fw.Hex(got), okUpTo, hexOrNone(recs, i))
							break
						}
					}
				}
				_ = rd.Close()
			}
		}
		// a record whose header was altered is STEPPED OVER with SkipNext instead of being read: the skip may fail, but if it
		// succeeds the reader must stand exactly behind that record — what it reads next is the following written record
		if kind != "truncate" && kind != "file-header" && mustFailAt >= 0 && mustFailAt == okUpTo {
			if rd, err := recordio.NewFileReader(recordio.ReaderPath(dmg), recordio.ReaderBufferSizeBytes(gen.Pick(r, 16, 37, 4096))); err == nil {
				if rd.Open() == nil {
					ok := true
					for i := 0; i < okUpTo && ok; i++ {
						if r.Intn(2) == 0 {
							ok = rd.SkipNext() == nil
						} else {
							_, err := rd.ReadNext()
							ok = err == nil
						}
					}
					if ok && rd.SkipNext() == nil {
						c.Obs("skips_over_a_record_with_an_altered_header_that_succeeded", 1)
						for i := mustFailAt + 1; i <= len(recs); i++ {
							got, err := rd.ReadNext()
							if err != nil {
								break
							}
							if i >= len(recs) || !sameRec(got, recs[i]) {
								c.Violate("recordio/"+kind+"/seq-with-skips/record-out-of-order-after-skipping-a-damaged-record"+feat, "%s %s: after SkipNext over the damaged record %d, ReadNext returned %s where record %d (%s) follows", cfg, what, mustFailAt, fw.Hex(got), i, hexOrNone(recs, i))
								break
							}
						}
					}
				}
				_ = rd.Close()
			}
		}
		// random access reader
		mr, err := recordio.NewMemoryMappedReaderWithPath(dmg)
		if err != nil {
			if len(data) > 0 && kind != "file-header" && len(data) >= 8 {
				c.Violate("recordio/"+kind+"/mmap/create-failed"+feat, "%s %s: %v", cfg, what, err)
			}
			return
		}
		defer mr.Close()
		if err := mr.Open(); err != nil {
			if len(data) >= 8 && kind != "file-header" {
				c.Violate("recordio/"+kind+"/mmap/open-failed"+feat, "%s %s: Open failed: %v", cfg, what, err)
			}
			return
		}
		for i := range recs {
			if offs[i] > uint64(len(data)) {
				break
			}
			got, err := mr.ReadNextAt(offs[i])
			if i < okUpTo {
				if err != nil || !sameRec(got, recs[i]) {
					c.Violate("recordio/"+kind+"/mmap/intact-record-lost"+feat, "%s %s: ReadNextAt(record %d) = (%s,%v) want %s", cfg, what, i, fw.Hex(got), err, fw.Hex(recs[i]))
				}
				continue
			}
			if i == mustFailAt || kind == "truncate" {
				if err == nil && (i == mustFailAt || !sameRec(got, recs[i])) {
					c.Violate("recordio/"+kind+"/mmap/returned-data-for-damaged-record"+feat, "%s %s: ReadNextAt(record %d) returned %s without error (written: %s)", cfg, what, i, fw.Hex(got), fw.Hex(recs[i]))
				}
				if kind == "truncate" && err == nil && sameRec(got, recs[i]) {
					c.Violate("recordio/"+kind+"/mmap/record-beyond-cut"+feat, "%s %s: ReadNextAt(record %d) returned the full record although the file ends inside it", cfg, what, i)
				}
			}
			if kind != "truncate" {
				break
			}
		}
		// the SAME random-access reader is used further after reads that failed: the intact records are requested again
		// (twice, newest first), interleaved with repeated requests for the damaged one
		for pass := 0; pass < 2 && kind == "truncate"; pass++ {
			for i := okUpTo - 1; i >= 0; i-- {
				got, err := mr.ReadNextAt(offs[i])
				if err != nil || !sameRec(got, recs[i]) {
					c.Violate("recordio/"+kind+"/mmap/intact-record-lost-after-a-failed-read"+feat, "%s %s: ReadNextAt(record %d) = (%s,%v) want %s — on a reader whose earlier read of the cut record had failed", cfg, what, i, fw.Hex(got), err, fw.Hex(recs[i]))
					return
				}
				if okUpTo < len(recs) && offs[okUpTo] <= uint64(len(data)) {
					_, _ = mr.ReadNextAt(offs[okUpTo])
				}
			}
		}
	}

	// (a) truncations
	cutSet := map[int]bool{}
	if bigCase {
		for _, pr := range pf.Recs {
			for d := -2; d <= 2; d++ {
				cutSet[pr.Start+d], cutSet[pr.PayloadOff+d], cutSet[pr.End()+d] = true, true, true
			}
		}
		for i := 0; i < 40; i++ {
			cutSet[r.Intn(len(img)+1)] = true
		}
	}
	for L := 0; L <= len(img); L++ {
		if bigCase && !cutSet[L] {
			continue
		}
		whole := 0
		for whole < len(pf.Recs) && pf.Recs[whole].End() <= L {
			whole++
		}
		if L < 8 {
			// no complete file header: Open must fail
			units++
			_ = os.WriteFile(dmg, img[:L], 0644)
			if rd, err := recordio.NewFileReader(recordio.ReaderPath(dmg)); err == nil {
				if err := rd.Open(); err == nil {
					c.Violate("recordio/truncate/seq/open-accepts-short-header", "%s: Open succeeded on a %d byte file", cfg, L)
				}
				_ = rd.Close()
			}
			if L > 0 {
				if mr, err := recordio.NewMemoryMappedReaderWithPath(dmg); err == nil {
					if err := mr.Open(); err == nil {
						c.Violate("recordio/truncate/mmap/open-accepts-short-header", "%s: Open succeeded on a %d byte file", cfg, L)
					}
					_ = mr.Close()
				}
			}
			c.Obs("truncations_checked", 1)
			continue
		}
		judge("truncate", img[:L], whole, -1, fmt.Sprintf("cut at %d", L))
		c.Obs("truncations_checked", 1)
		if c.Violated() {
			break
		}
	}

	// (b) record header bytes
	type pos struct{ rec, off int }
	var hp []pos
	for i, pr := range pf.Recs {
		for o := pr.Start; o < pr.PayloadOff; o++ {
			hp = append(hp, pos{i, o})
		}
	}
	full := len(hp)*255 <= 6000
	for _, p := range hp {
		if c.Violated() {
			break
		}
		orig := img[p.off]
		var vals []byte
		if full {
			for v := 0; v < 256; v++ {
				if byte(v) != orig {
					vals = append(vals, byte(v))
				}
			}
		} else {
			set := map[byte]bool{}
			for b := 0; b < 8; b++ {
				set[orig^(1<<b)] = true
			}
			for _, v := range []byte{0x00, 0xff, 0x91, 0x8d, 0x4c, orig + 1, orig - 1} {
				set[v] = true
			}
			delete(set, orig)
			for v := range set {
				vals = append(vals, v)
			}
		}
		pr := pf.Recs[p.rec]
		for _, v := range vals {
			d := append([]byte{}, img...)
			d[p.off] = v
			// D3 trap observation: last crc byte gets its continuation bit and the next byte adds nothing
			if p.off == pr.PayloadOff-1 && v == orig|0x80 && p.off+1 < len(img) && img[p.off+1]&0x7f == 0 {
				c.Obs("crc_last_byte_continuation_with_zero_payload_byte", 1)
			}
			field := "marker"
			switch {
			case p.off >= pr.CrcOff:
				field = "crc"
			case p.off >= pr.CompLenOff:
				field = "compressed-len"
			case p.off >= pr.RawLenOff:
				field = "raw-len"
			case p.off == pr.NilFlagOff:
				field = "nil-flag"
			}
			judge("header-"+field, d, p.rec, p.rec, fmt.Sprintf("byte %d (%s of record %d) %02x->%02x", p.off, field, p.rec, orig, v))
			c.Obs("header_byte_alterations_checked", 1)
			if c.Violated() {
				break
			}
		}
	}

	// (c) file header
	for o := 0; o < 8 && !c.Violated() && c.Idx%4 == 0; o++ {
		for v := 0; v < 256; v++ {
			if byte(v) == img[o] {
				continue
			}
			d := append([]byte{}, img...)
			d[o] = byte(v)
			ver := binary.LittleEndian.Uint32(d[0:4])
			cmp := binary.LittleEndian.Uint32(d[4:8])
			if ver >= 1 && ver <= 4 && cmp <= 3 {
				continue
			}
			units++
			_ = os.WriteFile(dmg, d, 0644)
			rd, err := recordio.NewFileReader(recordio.ReaderPath(dmg))
			if err == nil {
				if err := rd.Open(); err == nil {
					c.Violate("recordio/file-header/seq/accepted", "%s: sequential reader opened a file with version=%d compression=%d", cfg, ver, cmp)
				}
				_ = rd.Close()
			}
			mr, err := recordio.NewMemoryMappedReaderWithPath(dmg)
			if err == nil {
				if err := mr.Open(); err == nil {
					c.Violate("recordio/file-header/mmap/accepted", "%s: mmap reader opened a file with version=%d compression=%d", cfg, ver, cmp)
				}
				_ = mr.Close()
			}
			c.Obs("file_header_alterations_rejected", 1)
		}
	}
	// undamaged file must read fully (sanity of the judge itself)
	judge("undamaged", img, len(recs), -1, "no damage")
	if rd, err := recordio.NewFileReader(recordio.ReaderPath(orig)); err == nil {
		if rd.Open() == nil {
			for range recs {
				_, _ = rd.ReadNext()
			}
			if _, err := rd.ReadNext(); !errors.Is(err, io.EOF) {
				c.Violate("recordio/undamaged/no-eof", "%s: %v", cfg, err)
			}
		}
		_ = rd.Close()
	}
	nt := int64(0)
	if len(recs) >= 2 {
		c.Nontrivial()
		nt = 1
	}
	c.SetUnits(units, nt)
	if c.Idx%40 == 0 {
		var rs []string
		for _, x := range recs[:min(len(recs), 5)] {
			rs = append(rs, fw.Hex(x))
		}
		c.Sample(map[string]any{"config": cfg, "records": rs, "header_bytes": len(hp), "all_255_values": full, "damaged_copies": units})
	}
}

func hexOrNone(recs [][]byte, i int) string {
	if i < len(recs) {
		return fw.Hex(recs[i])
	}
	return "<no such record>"
}
