package props

import (
	"errors"
	"fmt"
	rProto "github.com/thomasjungblut/go-sstables/recordio/proto"
	sProto "github.com/thomasjungblut/go-sstables/sstables/proto"
	"io"
	"math/rand"
	"os"
	"path/filepath"
	"runtime"
	"runtime/debug"
	"strings"
	"sync"
	"sync/atomic"
	"time"

	"github.com/thomasjungblut/go-sstables/recordio"
	"github.com/thomasjungblut/go-sstables/simpledb"
	"github.com/thomasjungblut/go-sstables/skiplist"
	"github.com/thomasjungblut/go-sstables/sstables"

	"verif/internal/fw"
	"verif/internal/gen"
)

// C19 — descriptors, mappings and goroutines stay bounded and are released by Close.

func init() {
	fw.Register(&fw.Prop{
		ID: "C19",
		Meta: func(tier string) fw.Meta {
			n := 90
			if tier == "thorough" {
				n = 2400
			}
			return fw.Meta{N: n, Level: "exploration", Chunk: 3, CaseTimeoutS: 300, MinNT: 30,
				Rule:        "case index mod 3: 0 = SimpleDB with a driven schedule: >=40 rotation/flush/compaction cycles with a census (/proc/self/fd, /proc/self/maps filtered by the database directory; runtime goroutine dump filtered by go-sstables frames) at every quiescent point: descriptors <= 4, mappings <= live tables + 3; after Close: 0 descriptors, 0 mappings, no library goroutine (polled <= 5 s), then re-Open in the same process, Close, RemoveAll. 1 = SimpleDB with the live compactor where Close is called while a compaction is in flight (held open at a hook point), plus directories carrying a torn compaction marker or a cut-off last WAL record, and sessions with a burst of concurrent writers/readers (GC off, so that no finalizer hides a dropped reader); same after-Close census. 2 = table readers (all index loaders, complete and abandoned Scans, range scans; also the repository's four legacy-format fixture tables) and RecordIO readers/writers (incl. readers whose Open fails on a short or damaged file) in seeded create/use/Close sequences; census must return to the baseline. Non-trivial: >=10 censuses taken in the case; distinct by (kind, sequence hash) Driven cases end with three short sessions over planted crash residue (empty table folder / table folder with an empty metadata file / leftover compaction folder) with the garbage collector held off; nothing may stay open after their Close. Every second driven case adds two sessions with the asynchronous direct-I/O log on a real file system (garbage collector held off).",
				MinObs:      map[string]int64{"sessions_with_the_direct_io_log_censused": 10, "sessions_over_planted_crash_residue": 10, "censuses": 1500, "db_cycles": 1200, "closes_during_inflight_compaction": 10, "abandoned_scans": 50, "failed_opens_closed": 50, "after_close_censuses": 100},
				Assumptions: []string{"Linux /proc is the ground truth for descriptors and mappings", "a goroutine counts as 'library goroutine' when its stack has a go-sstables frame"},
			}
		},
		Run: runC19,
	})
}

type census struct {
	fds  []string
	maps []string
}

func takeCensus(dir string) census {
	var cs census
	ents, _ := os.ReadDir("/proc/self/fd")
	for _, e := range ents {
		if t, err := os.Readlink("/proc/self/fd/" + e.Name()); err == nil && strings.HasPrefix(t, dir) {
			cs.fds = append(cs.fds, strings.TrimPrefix(t, dir))
		}
	}
	if b, err := os.ReadFile("/proc/self/maps"); err == nil {
		for _, ln := range strings.Split(string(b), "\n") {
			if i := strings.Index(ln, dir); i >= 0 {
				cs.maps = append(cs.maps, strings.TrimPrefix(ln[i:], dir))
			}
		}
	}
	return cs
}

func libGoroutines() []string {
	buf := make([]byte, 4<<20)
	n := runtime.Stack(buf, true)
	var out []string
	for _, g := range strings.Split(string(buf[:n]), "\n\n") {
		if strings.Contains(g, "github.com/thomasjungblut/go-sstables/") && !strings.Contains(g, "verif/internal/props.libGoroutines") {
			lines := strings.Split(g, "\n")
			top := ""
			for _, l := range lines {
				if strings.Contains(l, "go-sstables/") && !strings.HasPrefix(strings.TrimSpace(l), "/") {
					top = strings.TrimSpace(l)
					break
				}
			}
			out = append(out, top)
		}
	}
	return out
}

func afterCloseCensus(c *fw.Case, dir, what, ctx string) bool {
	c.Obs("censuses", 1)
	c.Obs("after_close_censuses", 1)
	cs := takeCensus(dir)
	if len(cs.fds) > 0 {
		c.Violate("resources/descriptor-open-after-close/"+what, "%d descriptors under the directory after Close: %v\n%s", len(cs.fds), cs.fds, ctx)
		return false
	}
	if len(cs.maps) > 0 {
		c.Violate("resources/mapping-left-after-close/"+what, "%d mappings under the directory after Close: %v\n%s", len(cs.maps), cs.maps, ctx)
		return false
	}
	var gs []string
	for i := 0; i < 500; i++ {
		gs = libGoroutines()
		if len(gs) == 0 {
			break
		}
		time.Sleep(10 * time.Millisecond)
	}
	if len(gs) > 0 {
		c.Violate("resources/goroutine-alive-after-close/"+what, "library goroutines still alive 5 s after Close: %v\n%s", gs, ctx)
		return false
	}
	return true
}

func runC19(c *fw.Case) {
	switch c.Idx % 3 {
	case 0:
		c19DBDriven(c)
	case 1:
		c19DBLive(c)
	default:
		c19Readers(c)
	}
}

func c19DBDriven(c *fw.Case) {
	r := c.R
	dir := filepath.Join(c.Dir, "db")
	_ = os.MkdirAll(dir, 0755)
	opts := dbOptSet{Memstore: 1 << 30, Threshold: gen.Pick(r, 0, 1, 3), MaxSize: gen.Pick(r, uint64(400), 1<<40), Ratio: gen.Pick(r, float32(0.2), 1), ReadBuf: 4096, WriteBuf: 4096}
	c.HashAdd("driven", opts.String())
	censuses := 0
	// one driven case in three starts with sessions on the FRESH directory that only delete (nothing to flush but
	// tombstones, no table below them)
	if r.Intn(3) == 0 {
		for pre := 0; pre < 2; pre++ {
			db, err := simpledb.NewSimpleDB(dir, opts.Options()...)
			if err == nil {
				err = db.Open()
			}
			if err != nil {
				c.Violate("resources/open-error", "delete-only session %d: %v", pre, err)
				return
			}
			for j := 0; j < 1+r.Intn(5); j++ {
				_ = db.Delete(fmt.Sprintf("k%d", r.Intn(12)))
			}
			if r.Intn(2) == 0 {
				_ = db.VerifForceRotate()
				waitFlushIdle(60 * time.Second)
			}
			if err := db.Close(); err != nil {
				c.Violate("resources/close-error", "%v", err)
				return
			}
			c.Obs("delete_only_sessions_on_a_fresh_directory", 1)
			if !afterCloseCensus(c, dir, "delete-only-session", fmt.Sprintf("delete-only session %d [%s]", pre, opts)) {
				return
			}
			censuses++
		}
	}
	for session := 0; session < 2; session++ {
		db, err := simpledb.NewSimpleDB(dir, opts.Options()...)
		if err == nil {
			err = db.Open()
		}
		if err != nil {
			c.Violate("resources/open-error", "session %d: %v", session, err)
			return
		}
		cycles := 40 + r.Intn(30)
		for i := 0; i < cycles; i++ {
			for j := 0; j < 1+r.Intn(4); j++ {
				k := fmt.Sprintf("k%d", r.Intn(12))
				if r.Intn(4) == 0 {
					_ = db.Delete(k)
				} else if err := db.Put(k, fmt.Sprintf("v%d-%d-%s", session, i, strings.Repeat("x", r.Intn(100)))); err != nil {
					c.Violate("resources/put-error", "%v", err)
					return
				}
			}
			if err := db.VerifForceRotate(); err != nil {
				c.Violate("resources/rotate-error", "%v", err)
				return
			}
			if !waitFlushIdle(60 * time.Second) {
				c.Inconclusive("flusher not idle")
				return
			}
			if r.Intn(2) == 0 {
				if _, err := db.VerifCompactOnce(); err != nil {
					c.Violate("resources/compaction-error", "%v", err)
					return
				}
			}
			c.Obs("db_cycles", 1)
			// quiescent point
			cs := takeCensus(dir)
			live := len(db.VerifLiveTables())
			c.Obs("censuses", 1)
			censuses++
			c.ObsMax("max_descriptors_at_quiescent_point", int64(len(cs.fds)))
			c.ObsMax("max_mappings_minus_live_tables", int64(len(cs.maps)-live))
			if len(cs.fds) > 4 {
				c.Violate("resources/descriptors-grow", "cycle %d: %d descriptors under the directory with %d live tables: %v [%s]", i, len(cs.fds), live, cs.fds, opts)
				return
			}
			if len(cs.maps) > live+3 {
				c.Violate("resources/mappings-grow", "cycle %d: %d mappings under the directory with %d live tables: %v [%s]", i, len(cs.maps), live, cs.maps, opts)
				return
			}
		}
		what := "driven-session"
		if r.Intn(2) == 0 {
			// wipe-out ending: every key is deleted and the compactor runs until nothing changes any more — a table with
			// zero records can then be live at Close (and is found again by the next session)
			for k := 0; k < 12; k++ {
				_ = db.Delete(fmt.Sprintf("k%d", k))
			}
			if db.VerifForceRotate() == nil && waitFlushIdle(60*time.Second) {
				for i := 0; i < 4; i++ {
					if _, err := db.VerifCompactOnce(); err != nil {
						c.Violate("resources/compaction-error", "%v", err)
						return
					}
				}
			}
			what = "driven-session+wipe-out"
			c.Obs("sessions_ending_with_everything_deleted_and_compacted", 1)
		}
		if err := db.Close(); err != nil {
			c.Violate("resources/close-error", "%v", err)
			return
		}
		if !afterCloseCensus(c, dir, what, fmt.Sprintf("session %d [%s]", session, opts)) {
			return
		}
		censuses++
	}
	// short sessions over what a killed process leaves behind: an empty table folder (killed between the MkdirAll of a
	// flush and the first file), a table folder with only an empty metadata file, a leftover compaction folder. The
	// garbage collector is held off for these sessions: a finalizer that happens to close a forgotten descriptor must
	// not hide that Close forgot it.
	for rs := 0; rs < 3; rs++ {
		kind := []string{"empty-table-folder", "table-folder-with-empty-metadata-file", "leftover-compaction-folder"}[(c.Idx+rs)%3]
		switch kind {
		case "empty-table-folder":
			_ = os.MkdirAll(filepath.Join(dir, fmt.Sprintf(simpledb.SSTablePattern, 900000+rs)), 0755)
		case "table-folder-with-empty-metadata-file":
			d := filepath.Join(dir, fmt.Sprintf(simpledb.SSTablePattern, 900000+rs))
			_ = os.MkdirAll(d, 0755)
			_ = os.WriteFile(filepath.Join(d, sstables.MetaFileName), nil, 0644)
			if r.Intn(2) == 0 {
				_ = os.WriteFile(filepath.Join(d, "data.rio"), gen.Bytes(r, 30), 0644)
			}
		default:
			d := filepath.Join(dir, simpledb.SSTableCompactionPathPrefix)
			_ = os.MkdirAll(d, 0755)
			if r.Intn(2) == 0 {
				_ = os.WriteFile(filepath.Join(d, sstables.MetaFileName), nil, 0644)
			}
		}
		oldGC := debug.SetGCPercent(-1)
		db, err := simpledb.NewSimpleDB(dir, opts.Options()...)
		if err == nil {
			err = db.Open()
		}
		if err != nil {
			debug.SetGCPercent(oldGC)
			c.Violate("resources/open-error", "session over crash residue (%s): %v", kind, err)
			return
		}
		_ = db.Put("after-residue", "v")
		_, _ = db.Get("after-residue")
		err = db.Close()
		ok := err == nil && afterCloseCensus(c, dir, "session-over-crash-residue/"+kind, fmt.Sprintf("residue session %d [%s]", rs, opts))
		debug.SetGCPercent(oldGC)
		if err != nil {
			c.Violate("resources/close-error", "%v", err)
			return
		}
		if !ok {
			return
		}
		c.Obs("sessions_over_planted_crash_residue", 1)
		censuses++
	}
	// two short sessions on a real file system with the asynchronous direct-I/O log (the option probes the file system
	// for O_DIRECT at Open), again with the garbage collector held off
	if c.Idx%2 == 0 {
		ddir := filepath.Join(c.DiskDir(), "db-direct-io-wal")
		_ = os.MkdirAll(ddir, 0755)
		dopts := opts
		dopts.Async, dopts.DirectIOWAL = true, true
		for ds := 0; ds < 2; ds++ {
			oldGC := debug.SetGCPercent(-1)
			db, err := simpledb.NewSimpleDB(ddir, dopts.Options()...)
			if err == nil {
				err = db.Open()
			}
			if err != nil {
				debug.SetGCPercent(oldGC)
				c.Violate("resources/open-error", "session with the direct-I/O log: %v", err)
				return
			}
			_ = db.Put("k", "v")
			_, _ = db.Get("k")
			err = db.Close()
			ok := err == nil && afterCloseCensus(c, ddir, "session-with-direct-io-wal", fmt.Sprintf("direct-I/O log session %d [%s]", ds, dopts))
			debug.SetGCPercent(oldGC)
			if err != nil {
				c.Violate("resources/close-error", "%v", err)
				return
			}
			if !ok {
				return
			}
			c.Obs("sessions_with_the_direct_io_log_censused", 1)
			censuses++
		}
	}
	if err := os.RemoveAll(dir); err != nil {
		c.Violate("resources/remove-after-close-failed", "%v", err)
		return
	}
	if censuses >= 10 {
		c.Nontrivial()
	}
	if c.Idx%15 == 0 {
		c.Sample(map[string]any{"kind": "db-driven", "options": opts.String(), "censuses": censuses})
	}
}

func c19DBLive(c *fw.Case) {
	r := c.R
	dir := filepath.Join(c.Dir, "db")
	_ = os.MkdirAll(dir, 0755)
	censuses := 0
	rounds := 4 + r.Intn(4)
	c.HashAdd("live", rounds)
	for round := 0; round < rounds; round++ {
		// build a few tables with the compactor disabled
		b := dbOptSet{Memstore: 1 << 30, Threshold: 0, MaxSize: 1 << 40, Ratio: 0.2, ReadBuf: 4096, WriteBuf: 4096}
		db, err := simpledb.NewSimpleDB(dir, b.Options()...)
		if err == nil {
			err = db.Open()
		}
		if err != nil {
			c.Violate("resources/open-error", "round %d: %v", round, err)
			return
		}
		for t := 0; t < 3+r.Intn(4); t++ {
			for j := 0; j < 3; j++ {
				_ = db.Put(fmt.Sprintf("k%d", r.Intn(10)), fmt.Sprintf("v%d-%d", round, t))
			}
			_ = db.VerifForceRotate()
			if !waitFlushIdle(60 * time.Second) {
				c.Inconclusive("flusher not idle")
				return
			}
		}
		if err := db.Close(); err != nil {
			c.Violate("resources/close-error", "%v", err)
			return
		}
		if r.Intn(3) == 0 {
			// a torn marker of an abandoned compaction (what a kill during saveCompactionMetadata leaves)
			td := filepath.Join(dir, fmt.Sprintf("sstable_compaction%d", 1000+round))
			_ = os.MkdirAll(td, 0755)
			_ = os.WriteFile(filepath.Join(td, "compaction_successful"), []byte{0x04, 0x00, 0x00}[:r.Intn(4)], 0644)
			c.Obs("torn_markers_planted", 1)
		}
		if r.Intn(3) == 0 {
			// a cut-off last record in the newest WAL file (what a kill inside an append leaves): recovery tolerates it,
			// and whatever it opened to read it must be released
			if c19PlantTornWal(filepath.Join(dir, "wal"), r) {
				c.Obs("torn_wal_tails_planted", 1)
			}
		}
		// reopen with the live compactor and call Close while a compaction is in flight
		var inflight int32
		reached := make(chan struct{}, 1)
		simpledb.VerifSetPoint("compaction.selected", func() {
			if atomic.CompareAndSwapInt32(&inflight, 0, 1) {
				reached <- struct{}{}
				time.Sleep(time.Duration(2+r.Intn(6)) * time.Millisecond)
			}
		})
		l := dbOptSet{Memstore: 1 << 30, Threshold: 0, MaxSize: 1 << 40, Ratio: 0.2, ReadBuf: 4096, WriteBuf: 4096, Live: true, IntervalUs: 200}
		if round%2 == 1 {
			l.Memstore, l.IntervalUs = 300, 50
		}
		db, err = simpledb.NewSimpleDB(dir, l.Options()...)
		if err == nil {
			err = db.Open()
		}
		if err != nil {
			simpledb.VerifSetPoint("compaction.selected", nil)
			c.Violate("resources/open-error", "round %d (live): %v", round, err)
			return
		}
		if round%2 == 1 {
			// concurrent clients while flushes and compactions run: tables installed under contention must all be
			// known to Close. GC is off so that a finalizer cannot hide a reader that was dropped from the list.
			old := debug.SetGCPercent(-1)
			c19Clients(db, r.Int63())
			c.Obs("live_sessions_with_concurrent_clients", 1)
			defer debug.SetGCPercent(old)
		}
		select {
		case <-reached:
			c.Obs("closes_during_inflight_compaction", 1)
		case <-time.After(2 * time.Second):
		}
		err = db.Close()
		simpledb.VerifSetPoint("compaction.selected", nil)
		if err != nil {
			c.Violate("resources/close-error", "Close during an in-flight compaction: %v", err)
			return
		}
		if !afterCloseCensus(c, dir, "close-during-compaction", fmt.Sprintf("round %d", round)) {
			return
		}
		censuses += 2
	}
	if err := os.RemoveAll(dir); err != nil {
		c.Violate("resources/remove-after-close-failed", "%v", err)
		return
	}
	if censuses >= 8 {
		c.Nontrivial()
	}
	if c.Idx%15 == 1 {
		c.Sample(map[string]any{"kind": "db-live-close-during-compaction", "rounds": rounds})
	}
}

// c19PlantTornWal writes a WAL file whose only record is cut inside its payload.
func c19PlantTornWal(walDir string, r *rand.Rand) bool {
	tmp := filepath.Join(walDir, "torn.tmp")
	w, err := recordio.NewFileWriter(recordio.Path(tmp), recordio.CompressionType(recordio.CompressionTypeSnappy))
	if err != nil || w.Open() != nil {
		return false
	}
	_, _ = w.Write(gen.Bytes(r, 300+r.Intn(300)))
	if w.Close() != nil {
		return false
	}
	b, err := os.ReadFile(tmp)
	_ = os.Remove(tmp)
	if err != nil || len(b) < 60 {
		return false
	}
	ents, _ := os.ReadDir(walDir)
	name := "000000.wal"
	for _, e := range ents {
		if strings.HasSuffix(e.Name(), ".wal") && e.Name() >= name {
			name = e.Name() // the newest file
		}
	}
	return os.WriteFile(filepath.Join(walDir, name), b[:len(b)-20-r.Intn(20)], 0644) == nil
}

// c19Clients runs a short burst of concurrent writers and readers against an open database.
func c19Clients(db *simpledb.DB, seed int64) {
	var wg sync.WaitGroup
	for g := 0; g < 4; g++ {
		wg.Add(1)
		go func(g int) {
			defer wg.Done()
			gr := rand.New(rand.NewSource(seed + int64(g)))
			for i := 0; i < 400; i++ {
				k := fmt.Sprintf("k%d", gr.Intn(10))
				if g < 2 {
					_ = db.Put(k, fmt.Sprintf("c%d-%d-%s", g, i, strings.Repeat("w", gr.Intn(200))))
				} else {
					_, _ = db.Get(k)
				}
			}
		}(g)
	}
	wg.Wait()
}

func c19Readers(c *fw.Case) {
	r := c.R
	dir := filepath.Join(c.Dir, "r")
	tdir := filepath.Join(dir, "table")
	_ = os.MkdirAll(tdir, 0755)
	keys := gen.AscendingKeys(r, 20+r.Intn(100), 0)
	w, err := sstables.NewSSTableStreamWriter(sstables.WriteBasePath(tdir), sstables.WithKeyComparator(skiplist.BytesComparator{}))
	if err == nil {
		err = w.Open()
	}
	if err != nil {
		c.Violate("harness/writer", "%v", err)
		return
	}
	for _, k := range keys {
		_ = w.WriteNext(k, gen.Payload(r, 50))
	}
	if err := w.Close(); err != nil {
		c.Violate("harness/close", "%v", err)
		return
	}
	censuses := 0
	check := func(what string) bool {
		c.Obs("censuses", 1)
		censuses++
		cs := takeCensus(dir)
		if len(cs.fds) > 0 || len(cs.maps) > 0 {
			kind := "descriptor"
			if len(cs.fds) == 0 {
				kind = "mapping"
			}
			c.Violate("resources/"+kind+"-left-after-close/"+what, "after %s and Close: descriptors %v mappings %v", what, cs.fds, cs.maps)
			return false
		}
		return true
	}
	if !check("writer") {
		return
	}
	// tables of the legacy (v0) format: the repository ships four as fixtures
	var legacy []string
	if rd := os.Getenv("VERIF_REPO_DIR"); rd != "" {
		for _, n := range []string{"SimpleWriteHappyPathSSTable", "SimpleWriteHappyPathSSTableRecordIOV2", "SimpleWriteHappyPathSSTableWithBloom", "SimpleWriteHappyPathSSTableWithMetaData"} {
			src := filepath.Join(rd, "sstables", "test_files", "v0_compat", n)
			if st, err := os.Stat(src); err == nil && st.IsDir() {
				dst := filepath.Join(dir, "legacy-"+n)
				if copyDir(src, dst) == nil {
					legacy = append(legacy, dst)
				}
			}
		}
	}
	steps := 15 + r.Intn(20)
	for s := 0; s < steps; s++ {
		op := r.Intn(12)
		if op == 8 && len(legacy) == 0 {
			op = 0
		}
		c.HashAdd(op)
		switch op {
		case 0, 1, 2, 3: // table reader with some loader, scans, close
			var loader sstables.IndexLoader
			lname := []string{"default", "slice", "skiplist", "disk"}[r.Intn(4)]
			switch lname {
			case "slice":
				loader = &sstables.SliceKeyIndexLoader{ReadBufferSize: 4096}
			case "skiplist":
				loader = &sstables.SkipListIndexLoader{KeyComparator: skiplist.BytesComparator{}, ReadBufferSize: 4096}
			case "disk":
				loader = &sstables.DiskIndexLoader{}
			}
			opts := []sstables.ReadOption{sstables.ReadBasePath(tdir), sstables.ReadWithKeyComparator(skiplist.BytesComparator{})}
			if loader != nil {
				opts = append(opts, sstables.ReadIndexLoader(loader))
			}
			rd, err := sstables.NewSSTableReader(opts...)
			if err != nil {
				c.Violate("resources/reader-open-error", "%v", err)
				return
			}
			what := "table-reader/" + lname
			for u := 0; u < 1+r.Intn(4); u++ {
				switch r.Intn(4) {
				case 0: // complete scan
					it, err := rd.Scan()
					if err == nil {
						for {
							if _, _, err := it.Next(); err != nil {
								break
							}
						}
					}
					what += "+scan"
				case 1: // abandoned scan
					it, err := rd.Scan()
					if err == nil {
						for i := 0; i < r.Intn(5); i++ {
							_, _, _ = it.Next()
						}
					}
					c.Obs("abandoned_scans", 1)
					what += "+abandoned-scan"
				case 2:
					it, err := rd.ScanRange(keys[0], keys[len(keys)/2])
					if err == nil {
						for i := 0; i < r.Intn(10); i++ {
							_, _, _ = it.Next()
						}
					}
					what += "+range-scan"
				default:
					_, _ = rd.Get(keys[r.Intn(len(keys))])
				}
			}
			if err := rd.Close(); err != nil {
				c.Violate("resources/reader-close-error/"+lname, "%v", err)
				return
			}
			if !check(strings.Split(what, "+")[0] + map[bool]string{true: "+abandoned-scan", false: ""}[strings.Contains(what, "abandoned")]) {
				return
			}
		case 4: // sequential recordio reader, partially read
			rd, err := recordio.NewFileReaderWithPath(filepath.Join(tdir, sstables.DataFileName))
			if err == nil && rd.Open() == nil {
				for i := 0; i < r.Intn(6); i++ {
					if _, err := rd.ReadNext(); errors.Is(err, io.EOF) {
						break
					}
				}
			}
			if rd != nil {
				_ = rd.Close()
			}
			if !check("recordio-file-reader") {
				return
			}
		case 5: // readers whose Open fails (short / damaged header), then Close
			bad := filepath.Join(dir, "bad.rio")
			_ = os.WriteFile(bad, [][]byte{{}, {0x04}, {0x04, 0, 0}, {0x09, 0, 0, 0, 0, 0, 0, 0}, {0x04, 0, 0, 0, 0x07, 0, 0, 0}}[r.Intn(5)], 0644)
			rd, err := recordio.NewFileReaderWithPath(bad)
			if err == nil {
				_ = rd.Open()
				_ = rd.Close()
			}
			mr, err := recordio.NewMemoryMappedReaderWithPath(bad)
			if err == nil {
				_ = mr.Open()
				_ = mr.Close()
			}
			c.Obs("failed_opens_closed", 1)
			if !check("recordio-reader-with-failed-open") {
				return
			}
		case 6: // mmap reader
			mr, err := recordio.NewMemoryMappedReaderWithPath(filepath.Join(tdir, sstables.DataFileName))
			if err == nil && mr.Open() == nil {
				_, _, _ = mr.SeekNext(uint64(r.Intn(200)))
			}
			if mr != nil {
				_ = mr.Close()
			}
			if !check("recordio-mmap-reader") {
				return
			}
		case 9: // stacked reader over 2..4 table readers: scans through the stack and through members, optionally one
			// member closed on its own beforehand (its second Close then reports an error) — Close of the stack must
			// still release every member
			n := 2 + r.Intn(3)
			var members []sstables.SSTableReaderI
			for i := 0; i < n; i++ {
				rd, err := sstables.NewSSTableReader(sstables.ReadBasePath(tdir), sstables.ReadWithKeyComparator(skiplist.BytesComparator{}))
				if err != nil {
					c.Violate("resources/reader-open-error", "%v", err)
					return
				}
				members = append(members, rd)
			}
			super := sstables.NewSuperSSTableReader(members, skiplist.BytesComparator{})
			for u := 0; u < 1+r.Intn(3); u++ {
				var it sstables.SSTableIteratorI
				var err error
				if r.Intn(2) == 0 {
					it, err = super.Scan()
				} else {
					it, err = members[r.Intn(n)].Scan()
				}
				if err == nil {
					for i := 0; i < r.Intn(8); i++ {
						if _, _, err := it.Next(); err != nil {
							break
						}
					}
				}
				c.Obs("abandoned_scans", 1)
			}
			what := "stacked-reader"
			if r.Intn(2) == 0 {
				_ = members[r.Intn(n-1)].Close() // never the last one: members after it must still be released
				what += "+member-closed-before"
				c.Obs("stacked_readers_with_a_member_closed_before", 1)
			}
			_ = super.Close() // an error for the member that was closed before is fine
			ok := check(what)
			runtime.KeepAlive(members) // (descriptors and mappings carry finalizers: keep them reachable until counted)
			runtime.KeepAlive(super)
			if !ok {
				return
			}
		case 11: // a table whose INDEX is unreadable (a flipped marker byte or a cut inside a record): creating the reader
			// fails — there is no reader the caller could close, so nothing may stay open
			bdir := filepath.Join(dir, "badindex")
			_ = os.RemoveAll(bdir)
			if copyDir(tdir, bdir) == nil {
				ip := filepath.Join(bdir, sstables.IndexFileName)
				if img, err := os.ReadFile(ip); err == nil && len(img) > 20 {
					if r.Intn(2) == 0 {
						img = img[:8+r.Intn(len(img)-8)]
					} else {
						img[8+r.Intn(3)] ^= 0x55
					}
					_ = os.WriteFile(ip, img, 0644)
					lname := []string{"default", "slice", "skiplist", "disk"}[r.Intn(4)]
					opts := []sstables.ReadOption{sstables.ReadBasePath(bdir), sstables.ReadWithKeyComparator(skiplist.BytesComparator{})}
					switch lname {
					case "slice":
						opts = append(opts, sstables.ReadIndexLoader(&sstables.SliceKeyIndexLoader{ReadBufferSize: 4096}))
					case "skiplist":
						opts = append(opts, sstables.ReadIndexLoader(&sstables.SkipListIndexLoader{KeyComparator: skiplist.BytesComparator{}, ReadBufferSize: 4096}))
					case "disk":
						opts = append(opts, sstables.ReadIndexLoader(&sstables.DiskIndexLoader{}))
					}
					rd, err := sstables.NewSSTableReader(opts...)
					if err == nil {
						_ = rd.Close()
					} else {
						c.Obs("table_readers_that_failed_to_load_a_damaged_index", 1)
					}
					ok := check("table-reader-with-unreadable-index/" + lname)
					runtime.KeepAlive(rd)
					if !ok {
						return
					}
				}
			}
		case 10: // the protobuf record writer (Path option; plain, compressed, and direct I/O on a real file system)
			pdir := dir
			var popts []rProto.WriterOption
			what := "proto-writer"
			if r.Intn(2) == 0 {
				pdir = c.DiskDir()
				popts = append(popts, rProto.DirectIO())
				what += "+directio"
				c.Obs("proto_writers_with_direct_io", 1)
			}
			if r.Intn(2) == 0 {
				popts = append(popts, rProto.CompressionType(1+r.Intn(3)))
			}
			pw, err := rProto.NewWriter(append(popts, rProto.Path(filepath.Join(pdir, "p.rio")))...)
			if err == nil && pw.Open() == nil {
				for i := 0; i < r.Intn(4); i++ {
					_, _ = pw.Write(&sProto.IndexEntry{Key: []byte("k"), ValueOffset: uint64(i)})
				}
			}
			if pw != nil {
				_ = pw.Close()
			}
			cs := takeCensus(pdir)
			c.Obs("censuses", 1)
			runtime.KeepAlive(pw)
			if len(cs.fds) > 0 || len(cs.maps) > 0 {
				c.Violate("resources/descriptor-left-after-close/"+what, "after %s and Close: descriptors %v mappings %v", what, cs.fds, cs.maps)
				return
			}
		case 8: // legacy-format table: full scans (complete / abandoned / untouched), then Close
			lp := legacy[r.Intn(len(legacy))]
			rd, err := sstables.NewSSTableReader(sstables.ReadBasePath(lp), sstables.ReadWithKeyComparator(skiplist.BytesComparator{}))
			if err != nil {
				c.Obs("legacy_tables_not_openable", 1)
				break
			}
			for u := 0; u < 1+r.Intn(3); u++ {
				it, err := rd.Scan()
				if err != nil {
					continue
				}
				for i := 0; i < r.Intn(12); i++ {
					if _, _, err := it.Next(); err != nil {
						break
					}
				}
				c.Obs("abandoned_scans", 1)
			}
			c.Obs("legacy_tables_scanned", 1)
			if err := rd.Close(); err != nil {
				c.Violate("resources/reader-close-error/legacy", "%v", err)
				return
			}
			if !check("legacy-table-reader+scan") {
				return
			}
		default: // writer
			p := filepath.Join(dir, "w.rio")
			fwr, err := recordio.NewFileWriter(recordio.Path(p), recordio.CompressionType(r.Intn(4)))
			what := "recordio-writer"
			if err == nil && fwr.Open() == nil {
				var offs []uint64
				for i := 0; i < r.Intn(5); i++ {
					if o, err := fwr.Write(gen.Payload(r, 40)); err == nil {
						offs = append(offs, o)
					}
				}
				// half of the writers are rewound to an earlier record before Close (with nothing, or something shorter,
				// written afterwards): Close then also has to cut the file — and still release it
				if len(offs) > 0 && r.Intn(2) == 0 {
					if fwr.Seek(offs[r.Intn(len(offs))]) == nil {
						what += "+rewound"
						c.Obs("writers_rewound_before_close", 1)
						if r.Intn(2) == 0 {
							_, _ = fwr.Write([]byte("x"))
						}
					}
				}
			}
			if fwr != nil {
				_ = fwr.Close()
			}
			ok := check(what)
			runtime.KeepAlive(fwr)
			if !ok {
				return
			}
		}
	}
	if censuses >= 10 {
		c.Nontrivial()
	}
	if c.Idx%15 == 2 {
		c.Sample(map[string]any{"kind": "readers", "steps": steps, "censuses": censuses})
	}
}
