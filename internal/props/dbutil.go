package props

import (
	"errors"
	"fmt"
	"math/rand"
	"path/filepath"
	"time"

	"github.com/thomasjungblut/go-sstables/simpledb"

	"verif/internal/gen"
)

// dbOptions draws one session's option set. live=false disables the background compactor (cycles are then
// placed by the program through the tag-guarded helpers).
type dbOptSet struct {
	Memstore    uint64
	Threshold   int
	MaxSize     uint64
	Ratio       float32
	ReadBuf     uint64
	WriteBuf    uint64
	Live        bool
	IntervalMs  int
	IntervalUs  int // overrides IntervalMs when > 0
	Async       bool
	DirectIOWAL bool
	Omit        uint8 // bit i set: option i of the size/compaction options is not passed at all (library default applies)
	Order       int64 // != 0: the options are passed in a seeded order (options are a set)
}

func (o dbOptSet) String() string {
	return fmt.Sprintf("memstore=%d threshold=%d maxSize=%d ratio=%.1f rbuf=%d wbuf=%d live=%v interval=%dms async=%v directIOWAL=%v omitted=%06b shuffled=%v",
		o.Memstore, o.Threshold, o.MaxSize, o.Ratio, o.ReadBuf, o.WriteBuf, o.Live, o.IntervalMs, o.Async, o.DirectIOWAL, o.Omit, o.Order != 0)
}

func drawDBOpts(r *rand.Rand, live bool) dbOptSet {
	o := dbOptSet{
		Memstore:  gen.Pick(r, uint64(0), 30, 64, 256, 4096, 1<<30),
		Threshold: gen.Pick(r, 0, 1, 2, 5),
		MaxSize:   gen.Pick(r, uint64(1), 200, 700, 5<<30),
		Ratio:     gen.Pick(r, float32(0), 0.2, 0.5, 1),
		ReadBuf:   gen.Pick(r, uint64(16), 64, 4096, 4<<20),
		WriteBuf:  gen.Pick(r, uint64(16), 64, 4096, 4<<20),
		Live:      live,
	}
	if live {
		o.IntervalMs = 1 + r.Intn(5)
	}
	// one option set in three is passed in a shuffled order, and each of the compaction-selection and buffer options is
	// left out (library default) with probability 1/6 — never the memstore size, which the workloads rely on
	if r.Intn(3) == 0 {
		o.Order = 1 + r.Int63n(1<<40)
	}
	for bit := 1; bit < 6; bit++ {
		if r.Intn(6) == 0 {
			o.Omit |= 1 << bit
		}
	}
	return o
}

func (o dbOptSet) Options() []simpledb.ExtraOption {
	all := []simpledb.ExtraOption{
		simpledb.MemstoreSizeBytes(o.Memstore),
		simpledb.CompactionFileThreshold(o.Threshold),
		simpledb.CompactionMaxSizeBytes(o.MaxSize),
		simpledb.CompactionRatio(o.Ratio),
		simpledb.ReadBufferSizeBytes(o.ReadBuf),
		simpledb.WriteBufferSizeBytes(o.WriteBuf),
	}
	var opts []simpledb.ExtraOption
	for i, op := range all {
		if o.Omit&(1<<i) == 0 {
			opts = append(opts, op)
		}
	}
	if o.Live {
		iv := time.Duration(o.IntervalMs) * time.Millisecond
		if o.IntervalUs > 0 {
			iv = time.Duration(o.IntervalUs) * time.Microsecond
		}
		opts = append(opts, simpledb.CompactionRunInterval(iv))
	} else {
		opts = append(opts, simpledb.DisableCompactions())
	}
	if o.Async {
		opts = append(opts, simpledb.EnableAsyncWAL())
	}
	if o.DirectIOWAL {
		opts = append(opts, simpledb.EnableDirectIOWAL())
	}
	if o.Order != 0 {
		rand.New(rand.NewSource(o.Order)).Shuffle(len(opts), func(i, j int) { opts[i], opts[j] = opts[j], opts[i] })
	}
	return opts
}

// waitFlushIdle waits (bounded, harness watchdog only) until every handed-off memstore has been installed.
func waitFlushIdle(d time.Duration) bool {
	dl := time.Now().Add(d)
	for i := 0; ; i++ {
		if simpledb.VerifFlushIdle() {
			return true
		}
		if i%50 == 49 && c11FlusherFailed() {
			return false
		}
		if time.Now().After(dl) {
			return simpledb.VerifFlushIdle()
		}
		time.Sleep(100 * time.Microsecond)
	}
}

// dbGet normalises a read: (value, found, error)
func dbGet(db *simpledb.DB, k string) (string, bool, error) {
	v, err := db.Get(k)
	if err != nil {
		if errors.Is(err, simpledb.ErrNotFound) {
			return "", false, nil
		}
		return "", false, err
	}
	return v, true, nil
}

// realDir resolves symbolic links in a scratch directory path (the system-call traces name real paths).
func realDir(d string) string {
	if r, err := filepath.EvalSymlinks(d); err == nil {
		return r
	}
	return d
}
