package props

import (
	"errors"
	"fmt"
	"math"
	"math/rand"
	"os"
	"path/filepath"
	"runtime"
	"sort"
	"strings"
	"sync"
	"sync/atomic"
	"time"

	"github.com/anishathalye/porcupine"
	"github.com/thomasjungblut/go-sstables/simpledb"
	"github.com/thomasjungblut/go-sstables/sstables"

	"verif/internal/fw"
	"verif/internal/gen"
)

// C05 — concurrent Get/Put/Delete are linearizable while flushes and compactions run.

type linIn struct {
	Op    int // 0 get, 1 put, 2 delete
	Key   string
	Val   string
	Maybe bool // the call returned an error: it may or may not have taken effect (it stays open until the end of the history)
}
type linOut struct {
	Val   string
	Found bool
}

var linModel = porcupine.Model{
	Partition: func(history []porcupine.Operation) [][]porcupine.Operation {
		m := map[string][]porcupine.Operation{}
		var keys []string
		for _, op := range history {
			k := op.Input.(linIn).Key
			if _, ok := m[k]; !ok {
				keys = append(keys, k)
			}
			m[k] = append(m[k], op)
		}
		sort.Strings(keys)
		var out [][]porcupine.Operation
		for _, k := range keys {
			out = append(out, m[k])
		}
		return out
	},
	// The state is the SET of values the register may hold ("" = absent; values are never empty and never contain
	// NUL), encoded as its sorted members joined by NUL. Without failed calls the set always has one member and this
	// is the plain register model; a failed mutation maps S to S + {its effect} (the powerset construction of "took
	// effect at this point, or never"), and a Get that returned v requires v in S and narrows S to {v}.
	Init: func() interface{} { return "" },
	Step: func(state, input, output interface{}) (bool, interface{}) {
		in := input.(linIn)
		st := state.(string)
		switch in.Op {
		case 1, 2:
			v := in.Val
			if in.Op == 2 {
				v = ""
			}
			if !in.Maybe {
				return true, v
			}
			set := strings.Split(st, "\x00")
			for _, m := range set {
				if m == v {
					return true, st
				}
			}
			set = append(set, v)
			sort.Strings(set)
			return true, strings.Join(set, "\x00")
		default:
			out := output.(linOut)
			want := ""
			if out.Found {
				want = out.Val
			}
			for _, m := range strings.Split(st, "\x00") {
				if m == want {
					return true, want
				}
			}
			return false, st
		}
	},
	DescribeOperation: func(input, output interface{}) string {
		in := input.(linIn)
		failed := ""
		if in.Maybe {
			failed = " FAILED"
		}
		switch in.Op {
		case 1:
			return fmt.Sprintf("Put(%s,%s)%s", in.Key, in.Val, failed)
		case 2:
			return fmt.Sprintf("Delete(%s)%s", in.Key, failed)
		}
		out := output.(linOut)
		if !out.Found {
			return fmt.Sprintf("Get(%s)=<not found>", in.Key)
		}
		return fmt.Sprintf("Get(%s)=%s", in.Key, out.Val)
	},
}

func init() {
	fw.Register(&fw.Prop{
		ID: "C05",
		Meta: func(tier string) fw.Meta {
			n := 240
			if tier == "thorough" {
				n = 6000
			}
			return fw.Meta{N: n, Level: "exploration", Chunk: 2, CaseTimeoutS: 300, MinNT: 80, Workers: 8,
				Rule:        "one case = one recorded history: 3..6 client goroutines issue 150..400 calls each (40% Put with unique values, 15% Delete, 45% Get) on 2..5 keys against one real database with a memstore limit of 10..60 bytes (below the footprint of the key universe, so nearly every write rotates), while either the real background compactor runs on a 50 us..1 ms ticker (even cases) or a chaos goroutine forces rotations and runs compaction cycles through the tag-guarded helpers (odd cases), and seeded delays (0..2 ms sleeps or yield bursts) are armed at the hook points that lie BETWEEN critical sections (flush begin, before the flushed table becomes visible, after compaction selection, before the compaction result is reflected) and one INSIDE the reflection's critical section (inputs removed, result not yet renamed — it cannot create an interleaving the locks forbid, it only widens the window for a lock that is missing); every ~20th Get is additionally parked for 150 us right after it has picked up the stacked table reader (a legal preemption point). Call/return stamps come from one monotonic clock at the client boundary; the history is checked per key with porcupine against a single-register model (timeout = inconclusive). Every 10th history additionally has a FAILING rotation (a directory is planted where one of the next WAL files would be created when the clients are 25..70% through): mutations that return an error afterwards stay in the history as open calls that may or may not have taken effect (the model state is the set of possible register values), Gets must keep succeeding, the chaos goroutine keeps attempting rotations. Non-trivial: >=5 flushes and >=1 compaction completed inside the client activity window and some key has >=2 overlapping calls; distinct by history hash",
				MinObs:      map[string]int64{"histories_checked": 100, "client_calls": 50000, "flushes_inside_window": 5000, "compactions_inside_window": 300, "overlapping_call_pairs_same_key": 2000, "hook_delays_executed": 200, "histories_with_a_failing_rotation": 10, "mutations_that_returned_an_error_kept_as_open_calls": 200},
				Assumptions: []string{"explores the interleavings that the scheduler, the injected delays and the chaos goroutine produce, not all of them"},
			}
		},
		Run: runC05,
	})
}

func runC05(c *fw.Case) {
	r := c.R
	live := c.Idx%2 == 0
	// every 10th history has a rotation that FAILS: when the clients are 25..70% through, a directory is planted where
	// one of the next WAL files would be created, so the rotation that reaches that number fails, the call that
	// triggered it returns an error (after its record was logged and applied) and every later mutation fails at the
	// closed WAL; failed mutations are kept in the history as open "may have taken effect" calls, Gets must keep
	// succeeding, and the chaos goroutine keeps attempting rotations
	faulty := c.Idx%10 == 7
	var planted, failedCalls, callsMade int32
	nClients := 3 + r.Intn(4)
	nKeys := 2 + r.Intn(4)
	perClient := 150 + r.Intn(250)
	opts := dbOptSet{Memstore: uint64(10 + r.Intn(50)), Threshold: r.Intn(3), MaxSize: gen.Pick(r, uint64(200), 2000, 2000, 1<<40), Ratio: gen.Pick(r, float32(0.2), 1),
		ReadBuf: 4096, WriteBuf: gen.Pick(r, uint64(64), 4096), Live: live, IntervalMs: 1, IntervalUs: gen.Pick(r, 50, 200, 1000)}
	db, err := simpledb.NewSimpleDB(c.Dir, opts.Options()...)
	if err == nil {
		err = db.Open()
	}
	if err != nil {
		c.Violate("lin/open-error", "%v", err)
		return
	}
	// half of the histories start on top of an ANCHOR table that is larger than the compaction size limit and therefore
	// stays out of every run: the runs then never start at the oldest table (they keep their tombstones)
	if r.Intn(2) == 0 {
		if err := db.Put("anchor", strings.Repeat("a", 4096)); err == nil {
			err = db.VerifForceRotate()
		}
		if err != nil || !waitFlushIdle(20*time.Second) {
			c.Inconclusive(fmt.Sprintf("anchor table could not be set up: %v", err))
			_ = db.Close()
			return
		}
		c.Obs("histories_on_top_of_an_anchor_table_outside_every_run", 1)
		c.HashAdd("anchor")
	}
	// delays between critical sections
	var delays int64
	delaySeed := r.Int63()
	var dmu sync.Mutex
	drand := rand.New(rand.NewSource(delaySeed))
	mode := r.Intn(3) // 0 no delays, 1 sleeps, 2 yield bursts
	mkDelay := func() func() {
		return func() {
			dmu.Lock()
			x := drand.Intn(100)
			d := time.Duration(drand.Intn(2000)) * time.Microsecond
			dmu.Unlock()
			if x < 50 {
				return
			}
			atomic.AddInt64(&delays, 1)
			if mode == 1 {
				time.Sleep(d)
			} else {
				for i := 0; i < 50; i++ {
					runtime.Gosched()
				}
			}
		}
	}
	points := []string{"flush.begin", "flush.beforeAddReader", "compaction.selected", "compaction.beforeReflect", "compaction.reflect.inputsRemoved"}
	if mode != 0 {
		for _, p := range points {
			simpledb.VerifSetPoint(p, mkDelay())
		}
	}
	// a reader that has picked up the stacked table reader may be descheduled before it reads: park every ~20th Get there
	var getCalls int64
	if mode != 0 {
		sstables.VerifSuperReaderGet = func() {
			if atomic.AddInt64(&getCalls, 1)%20 == 0 {
				atomic.AddInt64(&delays, 1)
				time.Sleep(150 * time.Microsecond)
			}
		}
	}
	defer func() {
		sstables.VerifSuperReaderGet = nil
		for _, p := range points {
			simpledb.VerifSetPoint(p, nil)
		}
	}()

	t0 := time.Now()
	now := func() int64 { return int64(time.Since(t0)) }
	flush0 := simpledb.VerifPointCount("flusher.done")
	comp0 := simpledb.VerifPointCount("compaction.reflected")
	var mu sync.Mutex
	var ops []porcupine.Operation
	var opErr error
	var wg sync.WaitGroup
	var clientsDone int32
	// every 2nd history (half of the live-compactor ones, half of the chaos ones) has a READ STORM on top: 4..8 extra clients that only call Get, without yielding, so that many
	// lookups are inside the same table readers at the same time (state that a reader carries from one lookup to the
	// next — a shared hasher, a shared scratch buffer — is only disturbed by overlapping lookups of flushed keys)
	nReaders := 0
	if c.Idx%4 == 1 || c.Idx%4 == 2 {
		nReaders = 4 + c.Idx/4%5
		c.Obs("histories_with_a_read_storm", 1)
		if c.Idx%8 >= 4 {
			// and half of those a wider key universe: most tables then hold a single key, so a lookup that is answered
			// from another lookup's state (filter, index position) lands on a table that does not hold its key
			nKeys += 6
		}
		c.HashAdd(fmt.Sprintf("readers%d", nReaders))
	}
	for cl := 0; cl < nClients+nReaders; cl++ {
		wg.Add(1)
		seed := r.Int63()
		go func(cl int, seed int64) {
			defer wg.Done()
			cr := rand.New(rand.NewSource(seed))
			readOnly := cl >= nClients
			local := make([]porcupine.Operation, 0, perClient)
			for i := 0; i < perClient; i++ {
				k := fmt.Sprintf("key%d", cr.Intn(nKeys))
				x := cr.Intn(100)
				if readOnly {
					x = 99
				}
				var in linIn
				var out linOut
				var e error
				call := now()
				switch {
				case x < 40:
					in = linIn{Op: 1, Key: k, Val: fmt.Sprintf("c%d-%d", cl, i)}
					e = db.Put(k, in.Val)
				case x < 55:
					in = linIn{Op: 2, Key: k}
					e = db.Delete(k)
				default:
					in = linIn{Key: k}
					var v string
					v, e = db.Get(k)
					if e == nil && v == "" {
						// nobody ever writes an empty value: a successful Get that returns one is not the absent state either
						v = "<empty value, never written>"
					}
					if e == nil {
						out = linOut{v, true}
					} else if errors.Is(e, simpledb.ErrNotFound) {
						e = nil
					}
				}
				ret := now()
				atomic.AddInt32(&callsMade, 1)
				if e != nil && in.Op != 0 && atomic.LoadInt32(&planted) == 1 {
					atomic.AddInt32(&failedCalls, 1)
					in.Maybe = true
					local = append(local, porcupine.Operation{ClientId: cl, Input: in, Call: call, Output: out, Return: math.MaxInt64 / 2})
					// a client with an open call does not issue further calls (they would be ordered after a call that has
					// not returned): it goes on under a fresh client id
					cl += 100
					continue
				}
				if e != nil {
					mu.Lock()
					if opErr == nil {
						opErr = fmt.Errorf("client %d call %d %v: %w", cl, i, in, e)
					}
					mu.Unlock()
					break
				}
				local = append(local, porcupine.Operation{ClientId: cl, Input: in, Call: call, Output: out, Return: ret})
				if !readOnly && cr.Intn(8) == 0 {
					runtime.Gosched()
				}
			}
			mu.Lock()
			ops = append(ops, local...)
			mu.Unlock()
		}(cl, seed)
	}
	// chaos goroutine
	var chaosErr error
	var cwg sync.WaitGroup
	cwg.Add(1)
	chaosSeed := r.Int63()
	go func() {
		defer cwg.Done()
		cr := rand.New(rand.NewSource(chaosSeed))
		plantAt := int32(nClients * perClient * (25 + cr.Intn(45)) / 100)
		for atomic.LoadInt32(&clientsDone) == 0 {
			if faulty && atomic.LoadInt32(&planted) == 0 && atomic.LoadInt32(&callsMade) >= plantAt {
				atomic.StoreInt32(&planted, 1)
				hi := -1
				ents, _ := os.ReadDir(filepath.Join(c.Dir, simpledb.WriteAheadFolder))
				for _, e := range ents {
					var n int
					if _, err := fmt.Sscanf(e.Name(), "%06d.wal", &n); err == nil && n > hi {
						hi = n
					}
				}
				_ = os.Mkdir(filepath.Join(c.Dir, simpledb.WriteAheadFolder, fmt.Sprintf("%06d.wal", hi+2+cr.Intn(4))), 0700)
			}
			switch {
			case cr.Intn(3) == 0:
				if err := db.VerifForceRotate(); err != nil && atomic.LoadInt32(&planted) == 0 {
					chaosErr = fmt.Errorf("forced rotation: %w", err)
					return
				}
			case !live:
				if _, err := db.VerifCompactOnce(); err != nil {
					chaosErr = fmt.Errorf("compaction cycle: %w", err)
					return
				}
			}
			if cr.Intn(2) == 0 {
				time.Sleep(time.Duration(cr.Intn(200)) * time.Microsecond)
			}
		}
	}()
	wg.Wait()
	// in the driven histories the state is pushed all the way down before the final reads: the memstores are rotated out
	// and two more compaction cycles run, so that the last deletes are only represented by what compactions wrote
	settle := !live && !faulty && opErr == nil && r.Intn(2) == 0
	flIn := simpledb.VerifPointCount("flusher.done") - flush0
	cpIn := simpledb.VerifPointCount("compaction.reflected") - comp0
	if settle {
		// (the chaos goroutine is stopped first: the library runs ONE compactor, two concurrent cycles are not a legal schedule)
		atomic.StoreInt32(&clientsDone, 1)
		cwg.Wait()
	}
	if settle && chaosErr == nil {
		if db.VerifForceRotate() == nil && waitFlushIdle(20*time.Second) && db.VerifForceRotate() == nil && waitFlushIdle(20*time.Second) {
			for i := 0; i < 2; i++ {
				_, _ = db.VerifCompactOnce()
			}
			c.Obs("histories_settled_into_compacted_tables_before_the_final_reads", 1)
		}
	}
	// after all clients have returned, one more client reads every key: the final state must fit the history too
	for k := 0; k < nKeys && opErr == nil; k++ {
		key := fmt.Sprintf("key%d", k)
		call := now()
		v, e := db.Get(key)
		ret := now()
		out := linOut{}
		if e == nil && v == "" {
			v = "<empty value, never written>"
		}
		if e == nil {
			out = linOut{v, true}
		} else if !errors.Is(e, simpledb.ErrNotFound) {
			opErr = fmt.Errorf("final read of %s: %w", key, e)
			break
		}
		ops = append(ops, porcupine.Operation{ClientId: nClients, Input: linIn{Key: key}, Call: call, Output: out, Return: ret})
	}
	atomic.StoreInt32(&clientsDone, 1)
	cwg.Wait()
	cerr := db.Close()
	c.Obs("hook_delays_executed", atomic.LoadInt64(&delays))
	cfg := fmt.Sprintf("clients=%d keys=%d calls/client=%d delays=%d [%s]", nClients, nKeys, perClient, mode, opts)
	if opErr != nil {
		c.Violate("lin/client-call-error", "%s: %v", cfg, opErr)
		return
	}
	if chaosErr != nil {
		c.Violate("lin/background-cycle-error", "%s: %v", cfg, chaosErr)
		return
	}
	if cerr != nil && !faulty {
		c.Violate("lin/close-error", "%s: %v", cfg, cerr)
		return
	}
	if faulty {
		cfg += fmt.Sprintf(" failing-rotation(failed calls=%d)", failedCalls)
		c.Obs("histories_with_a_failing_rotation", 1)
		c.Obs("mutations_that_returned_an_error_kept_as_open_calls", int64(failedCalls))
	}
	c.Obs("client_calls", int64(len(ops)))
	c.Obs("flushes_inside_window", flIn)
	c.Obs("compactions_inside_window", cpIn)
	// overlap count per key
	byKey := map[string][]porcupine.Operation{}
	for _, op := range ops {
		k := op.Input.(linIn).Key
		byKey[k] = append(byKey[k], op)
		c.HashAdd(op.ClientId, op.Input.(linIn).Op, k, op.Input.(linIn).Val, op.Output.(linOut).Val, op.Input.(linIn).Maybe)
	}
	overlaps := int64(0)
	for _, l := range byKey {
		sort.Slice(l, func(i, j int) bool { return l[i].Call < l[j].Call })
		for i := range l {
			for j := i + 1; j < len(l) && l[j].Call < l[i].Return; j++ {
				overlaps++
			}
		}
	}
	c.Obs("overlapping_call_pairs_same_key", overlaps)
	res, info := porcupine.CheckOperationsVerbose(linModel, ops, 60*time.Second)
	c.Obs("histories_checked", 1)
	switch res {
	case porcupine.Unknown:
		c.Inconclusive("porcupine timed out on a history of " + fmt.Sprint(len(ops)) + " calls")
		return
	case porcupine.Illegal:
		// find the offending key: check each partition alone and print its tail
		detail := ""
		for k, l := range byKey {
			if r1, _ := porcupine.CheckOperationsVerbose(linModel, l, 30*time.Second); r1 == porcupine.Illegal {
				sort.Slice(l, func(i, j int) bool { return l[i].Call < l[j].Call })
				detail += fmt.Sprintf("key %s is not linearizable; its calls in call order (client: call..return op):\n", k)
				start := 0
				if len(l) > 40 {
					start = len(l) - 40
				}
				for _, op := range l[start:] {
					detail += fmt.Sprintf("  c%d: %d..%d %s\n", op.ClientId, op.Call/1000, op.Return/1000, linModel.DescribeOperation(op.Input, op.Output))
				}
				break
			}
		}
		_ = info
		c.Violate("lin/history-not-linearizable", "%s flushes=%d compactions=%d\n%s", cfg, flIn, cpIn, detail)
		return
	}
	if flIn >= 5 && cpIn >= 1 && overlaps >= 1 {
		c.Nontrivial()
	}
	if c.Idx%10 == 0 {
		var sample []string
		sort.Slice(ops, func(i, j int) bool { return ops[i].Call < ops[j].Call })
		for _, op := range ops[:min(len(ops), 8)] {
			sample = append(sample, fmt.Sprintf("c%d %dus..%dus %s", op.ClientId, op.Call/1000, op.Return/1000, linModel.DescribeOperation(op.Input, op.Output)))
		}
		c.Sample(map[string]any{"config": cfg, "calls": len(ops), "flushes_inside_window": flIn, "compactions_inside_window": cpIn, "overlapping_pairs": overlaps, "first_calls": sample})
	}
}
