package props

import (
	"bytes"
	"crypto/sha256"
	"encoding/hex"
	"encoding/json"
	"errors"
	"flag"
	"fmt"
	"math/rand"
	"os"
	"os/exec"
	"os/signal"
	"path/filepath"
	"regexp"
	"sort"
	"strings"
	"sync"
	"sync/atomic"
	"syscall"
	"time"

	"github.com/thomasjungblut/go-sstables/simpledb"

	"verif/internal/fw"
	"verif/internal/gen"
	"verif/internal/rio"
	"verif/internal/strace"
)

// E2 — system-call trace -> crash images -> recovery oracle (C02, C10, C13, C17 crash part).

// ------------------------------------------------------------------ traced session (child side)

type e2ctl struct {
	mu sync.Mutex
	f  *os.File
}

func (c *e2ctl) mark(format string, a ...any) {
	c.mu.Lock()
	_, _ = c.f.Write([]byte(fmt.Sprintf(format, a...) + "\n"))
	c.mu.Unlock()
}

var e2HookPoints = []string{"flush.begin", "flusher.done", "compaction.selected", "compaction.flagWritten", "compaction.reflected", "rotate.handoff"}

func e2Session(args []string) int {
	fs := flag.NewFlagSet("e2session", flag.ExitOnError)
	dir := fs.String("dir", "", "")
	ctlPath := fs.String("ctl", "", "")
	mode := fs.String("mode", "sync", "sync|async|c17")
	seed := fs.Int64("seed", 1, "")
	big := fs.Bool("big", false, "log more than the 4 MiB WAL buffer between rotations (async)")
	bigSync := fs.Bool("bigsync", false, "a few values larger than the 4 MiB WAL buffer, so that one synchronous append needs several write calls")
	nkeys := fs.Int("keys", 8, "")
	directSync := fs.Bool("directsync", false, "the second session asks for the direct-I/O WAL without the async option")
	directWAL := fs.Bool("directwal", false, "the big asynchronous session uses the direct-I/O WAL writer")
	_ = fs.Parse(args)
	f, err := os.OpenFile(*ctlPath, os.O_WRONLY|os.O_CREATE|os.O_APPEND, 0644)
	if err != nil {
		fmt.Fprintln(os.Stderr, err)
		return 3
	}
	ctl := &e2ctl{f: f}
	signal.Ignore(syscall.SIGXFSZ)
	for _, p := range e2HookPoints {
		p := p
		simpledb.VerifSetPoint(p, func() { ctl.mark("HOOK %s", p) })
	}
	r := rand.New(rand.NewSource(*seed))
	var keys []string
	for i := 0; i < *nkeys; i++ {
		keys = append(keys, fmt.Sprintf("k%d", i))
	}
	opIdx := 0
	sessions := 2 + r.Intn(2)
	if *big || *bigSync {
		sessions = 2 // a small clean session first: the big one then runs in a directory that was used before
	}
	for s := 0; s < sessions; s++ {
		o := dbOptSet{
			Memstore:  gen.Pick(r, uint64(16), 100, 150, 1024),
			Threshold: gen.Pick(r, 0, 1, 2),
			MaxSize:   gen.Pick(r, uint64(1), 300, 1000, 5<<30),
			Ratio:     gen.Pick(r, float32(0), 0.2, 0.5, 1),
			ReadBuf:   gen.Pick(r, uint64(64), 4096),
			WriteBuf:  gen.Pick(r, uint64(32), 64, 256, 4<<20),
			Live:      true, IntervalMs: gen.Pick(r, 1, 2, 5),
			Async: *mode == "async",
		}
		// sync mode: one session in six asks for the direct-I/O WAL WITHOUT the async option. Whatever the library makes of
		// that combination on this file system (refuse every write, or fall back to the buffered synchronous writer), what
		// it acknowledges must survive a kill
		if *directSync && s == 1 {
			o.DirectIOWAL = true
		}
		nops := 40 + r.Intn(110)
		// c17: half of the sessions run without the background compactor and contain ONE Put whose WAL append fails
		// half way (RLIMIT_FSIZE just above the current size of the WAL file, SIGXFSZ ignored => EFBIG / short write)
		faultSession := *mode == "c17" && r.Intn(2) == 0
		faultAt := -1
		if faultSession {
			o.Live = false
			faultAt = 5 + r.Intn(nops-5)
		}
		afterFault := 0
		burst := 0 // remaining calls of a run of consecutive deletes (the only way a memstore grows without a Put)
		bigNow := *big && s == 1
		bigSyncNow := *bigSync && s == 1
		if (*big || *bigSync) && s == 0 {
			nops = 5 + r.Intn(10)
		}
		if bigNow {
			o.Memstore = 16 << 20
			nops = 90 + r.Intn(40)
			o.DirectIOWAL = *directWAL
		}
		if bigSyncNow {
			o.Memstore = 64 << 20
			nops = 10 + r.Intn(6)
		}
		ctl.mark("SESSION %d %s", s, o.String())
		ctl.mark("PHASE open-begin")
		db, err := simpledb.NewSimpleDB(*dir, o.Options()...)
		if err == nil {
			err = db.Open()
		}
		if err != nil {
			ctl.mark("FATAL open %s", strings.ReplaceAll(err.Error(), "\n", " "))
			return 4
		}
		ctl.mark("PHASE open-done")
		scratch := map[string][]byte{}
		// sync mode: the last session of every second run is driven by three CONCURRENT clients that own disjoint keys
		// (per key the calls stay ordered, so the per-key oracle is unchanged); everything else about the session is the same
		if (*mode == "sync" || *mode == "async") && !*big && !*bigSync && s == sessions-1 && *seed%2 == 0 {
			for i, k := range keys {
				ctl.mark("OWNER %s %d", hex.EncodeToString([]byte(k)), i%3)
			}
			ctl.mark("PHASE concurrent-clients")
			var wg sync.WaitGroup
			var next int64 = int64(opIdx)
			for cl := 0; cl < 3; cl++ {
				wg.Add(1)
				go func(cl int, cs int64) {
					defer wg.Done()
					cr := rand.New(rand.NewSource(cs))
					var mine []string
					for i, k := range keys {
						if i%3 == cl {
							mine = append(mine, k)
						}
					}
					for i := 0; i < nops/3 && len(mine) > 0; i++ {
						k := mine[cr.Intn(len(mine))]
						id := int(atomic.AddInt64(&next, 1) - 1)
						var e error
						if cr.Intn(100) < 25 {
							ctl.mark("INV %d del %s ", id, hex.EncodeToString([]byte(k)))
							e = db.DeleteBytes([]byte(k))
						} else {
							v := []byte(fmt.Sprintf("c%d.%d-%s", cl, i, strings.Repeat("z", gen.Pick(cr, 1, 5, 20, 60))))
							ctl.mark("INV %d put %s %s", id, hex.EncodeToString([]byte(k)), hex.EncodeToString(v))
							e = db.PutBytes([]byte(k), v)
						}
						if e != nil {
							ctl.mark("ACK %d err %s", id, strings.ReplaceAll(e.Error(), "\n", " "))
						} else {
							ctl.mark("ACK %d ok", id)
						}
					}
				}(cl, r.Int63())
			}
			wg.Wait()
			opIdx = int(next)
			nops = 0
		}
		for i := 0; i < nops; i++ {
			k := keys[r.Intn(len(keys))]
			kind := "put"
			var v []byte
			x := r.Intn(100)
			if i == faultAt {
				waitFlushIdle(30 * time.Second)
				v = gen.Bytes(r, 700+r.Intn(3000))
				var sz int64
				if ents, err := os.ReadDir(filepath.Join(*dir, "wal")); err == nil {
					for _, e := range ents {
						if fi, err := e.Info(); err == nil && fi.Size() > sz {
							sz = fi.Size()
						}
					}
				}
				ctl.mark("INV %d faultput %s %s", opIdx, hex.EncodeToString([]byte(k)), hex.EncodeToString(v))
				var old syscall.Rlimit
				_ = syscall.Getrlimit(syscall.RLIMIT_FSIZE, &old)
				_ = syscall.Setrlimit(syscall.RLIMIT_FSIZE, &syscall.Rlimit{Cur: uint64(sz) + uint64(30+r.Intn(300)), Max: old.Max})
				e := db.PutBytes([]byte(k), v)
				_ = syscall.Setrlimit(syscall.RLIMIT_FSIZE, &old)
				if e != nil {
					ctl.mark("ACK %d err %s", opIdx, strings.ReplaceAll(e.Error(), "\n", " "))
					afterFault = 1 + r.Intn(3)
				} else {
					ctl.mark("ACK %d ok", opIdx)
				}
				opIdx++
				continue
			}
			if afterFault > 0 {
				// one to three more calls (they may or may not fail, whatever they return is what counts), then restart
				afterFault--
				if afterFault == 0 {
					i = nops
				}
			}
			if burst == 0 && !bigNow && !bigSyncNow && r.Intn(15) == 0 {
				burst = 2 + r.Intn(5)
			}
			switch {
			case burst > 0:
				// delete runs: keys that sit in older tables and long keys that were never written (their tombstones
				// alone push a small memstore over its limit)
				burst--
				kind = "del"
				if r.Intn(3) == 0 {
					k = fmt.Sprintf("never-written-%02d-%s", r.Intn(4), strings.Repeat("p", 4+r.Intn(12)))
				}
			case x < 22:
				kind = "del"
				if r.Intn(10) == 0 {
					k = "" // deleting the empty key is accepted (and logged): it must stay harmless through recovery
				}
			case *mode == "c17" && x < 40:
				// calls that must be rejected and must leave no trace
				kind = "badput"
				switch r.Intn(4) {
				case 0:
					v = nil
				case 1:
					v = []byte{}
				case 2:
					k, v = "", []byte("value-for-empty-key")
				default:
					k, v = "", nil
				}
			default:
				n := gen.Pick(r, 1, 5, 20, 60)
				if bigNow {
					n = 64*1024 + r.Intn(192*1024)
					if i == 0 && *seed%2 == 1 {
						n = 4400*1024 + r.Intn(1500*1024) // the FIRST record of the WAL file is larger than the WAL buffer
					}
					v = gen.Bytes(r, n) // incompressible: the WAL is snappy-compressed
				} else if bigSyncNow && r.Intn(2) == 0 {
					v = gen.Bytes(r, 4300*1024+r.Intn(1700*1024))
				} else {
					v = []byte(fmt.Sprintf("s%d.%d-%s", s, i, strings.Repeat("y", n)))
				}
			}
			// one put in three goes through ONE scratch buffer per key that the caller serialises into again and again (the
			// database keeps the slices it is given, so the buffer is only rewritten while no flush is running, and only
			// after the call has been announced); values sent that way always have the same length
			viaScratch := kind == "put" && !bigNow && !bigSyncNow && len(v) > 0 && len(v) <= 96 && r.Intn(3) == 0 && simpledb.VerifFlushIdle()
			if viaScratch {
				v = append(v, bytes.Repeat([]byte{'.'}, 96-len(v))...)
			}
			vs := hex.EncodeToString(v)
			if *big || *bigSync {
				// keep the marker small: the value is identified by its hash
				h := sha256.Sum256(v)
				vs = "sha:" + hex.EncodeToString(h[:8])
			}
			ctl.mark("INV %d %s %s %s", opIdx, kind, hex.EncodeToString([]byte(k)), vs)
			if viaScratch {
				ctl.mark("SCRATCH %d", opIdx)
				// only now, as part of the announced call, is the caller's buffer rewritten
				sb, ok := scratch[k]
				if !ok {
					sb = make([]byte, 96)
					scratch[k] = sb
				}
				copy(sb, v)
				v = sb
			}
			var e error
			switch kind {
			case "del":
				e = db.DeleteBytes([]byte(k))
			default:
				e = db.PutBytes([]byte(k), v)
			}
			if e != nil {
				ctl.mark("ACK %d err %s", opIdx, strings.ReplaceAll(e.Error(), "\n", " "))
			} else {
				ctl.mark("ACK %d ok", opIdx)
			}
			opIdx++
			if !bigNow && !bigSyncNow && r.Intn(30) == 0 {
				_ = db.VerifForceRotate() // (big sessions rotate by memstore size only, so that the 4 MiB WAL buffer wraps)
			}
			if r.Intn(12) == 0 {
				time.Sleep(time.Duration(200+r.Intn(1500)) * time.Microsecond)
			}
		}
		// wipe-out ending (sessions whose compactor also takes single tables): every key is deleted, the memstore is
		// rotated out and the compactor gets some ticks — tables without any record come and go before Close
		if o.Threshold == 0 && o.Live && !faultSession && !bigNow && !bigSyncNow && r.Intn(2) == 0 {
			ctl.mark("PHASE wipe-out")
			for _, k := range keys {
				ctl.mark("INV %d del %s ", opIdx, hex.EncodeToString([]byte(k)))
				if e := db.DeleteBytes([]byte(k)); e != nil {
					ctl.mark("ACK %d err %s", opIdx, strings.ReplaceAll(e.Error(), "\n", " "))
				} else {
					ctl.mark("ACK %d ok", opIdx)
				}
				opIdx++
			}
			_ = db.VerifForceRotate()
			waitFlushIdle(30 * time.Second)
			time.Sleep(40 * time.Millisecond)
		}
		ctl.mark("PHASE close-begin")
		if err := db.Close(); err != nil {
			if faultSession {
				// after a failed WAL write the writer stays in its error state: Close reports it, the process goes on
				// (the directory is then re-opened like after a kill)
				ctl.mark("PHASE close-failed-after-fault %s", strings.ReplaceAll(err.Error(), "\n", " "))
				continue
			}
			ctl.mark("FATAL close %s", strings.ReplaceAll(err.Error(), "\n", " "))
			return 5
		}
		ctl.mark("PHASE close-done")
	}
	ctl.mark("END")
	return 0
}

type e2RecoverOut struct {
	OpenErr  string             `json:"open_err,omitempty"`
	Reads    map[string]*string `json:"reads,omitempty"` // hex key -> hex value / nil
	GetErr   string             `json:"get_err,omitempty"`
	CloseErr string             `json:"close_err,omitempty"`
	ContErr  string             `json:"cont_err,omitempty"`
	Reads2   map[string]*string `json:"reads2,omitempty"` // after the fixed continuation + restart
}

func e2Recover(args []string) int {
	fs := flag.NewFlagSet("e2recover", flag.ExitOnError)
	dir := fs.String("dir", "", "")
	keys := fs.String("keys", "", "comma separated hex keys")
	rbuf := fs.Uint64("rbuf", 4096, "")
	wbuf := fs.Uint64("wbuf", 4096, "")
	hashVals := fs.Bool("hashvals", false, "report sha prefixes instead of values")
	cont := fs.Bool("cont", false, "after the read-all: a fixed continuation (put, delete, close, open) and a second read-all")
	async := fs.Bool("async", false, "open with the asynchronous WAL option")
	kill2 := fs.Bool("kill2", false, "with -cont: no Close after the continuation, the process ends like a second kill (the caller recovers the directory again)")
	_ = fs.Parse(args)
	var out e2RecoverOut
	ropts := []simpledb.ExtraOption{simpledb.DisableCompactions(), simpledb.ReadBufferSizeBytes(*rbuf), simpledb.WriteBufferSizeBytes(*wbuf)}
	if *async {
		ropts = append(ropts, simpledb.EnableAsyncWAL())
	}
	db, err := simpledb.NewSimpleDB(*dir, ropts...)
	if err == nil {
		err = db.Open()
	}
	if err != nil {
		out.OpenErr = err.Error()
		b, _ := json.Marshal(out)
		fmt.Println(string(b))
		return 0
	}
	out.Reads = map[string]*string{}
	for _, hk := range strings.Split(*keys, ",") {
		if hk == "" {
			continue
		}
		k, _ := hex.DecodeString(hk)
		v, err := db.GetBytes(k)
		if err != nil {
			if errors.Is(err, simpledb.ErrNotFound) {
				out.Reads[hk] = nil
				continue
			}
			out.GetErr = fmt.Sprintf("GetBytes(%s): %v", hk, err)
			break
		}
		hv := hex.EncodeToString(v)
		if *hashVals {
			h := sha256.Sum256(v)
			hv = "sha:" + hex.EncodeToString(h[:8])
		}
		out.Reads[hk] = &hv
	}
	klist := strings.Split(*keys, ",")
	if *cont && out.GetErr == "" && len(klist) >= 2 {
		// the recovered database must also *behave* like the uninterrupted one: same fixed continuation, same answers
		k0, _ := hex.DecodeString(klist[0])
		k1, _ := hex.DecodeString(klist[1])
		if err := db.PutBytes(k0, []byte("continuation-value")); err != nil {
			out.ContErr = "put: " + err.Error()
		}
		if err := db.DeleteBytes(k1); err != nil && out.ContErr == "" {
			out.ContErr = "delete: " + err.Error()
		}
	}
	if *cont && *kill2 {
		// second kill: what the first recovery showed and what was acknowledged since must survive without a Close
		b, _ := json.Marshal(out)
		fmt.Println(string(b))
		_ = os.Stdout.Sync()
		os.Exit(0)
	}
	if err := db.Close(); err != nil {
		out.CloseErr = err.Error()
	}
	if *cont && out.CloseErr == "" && out.ContErr == "" && out.GetErr == "" {
		db2, err := simpledb.NewSimpleDB(*dir, simpledb.DisableCompactions(), simpledb.ReadBufferSizeBytes(*rbuf), simpledb.WriteBufferSizeBytes(*wbuf))
		if err == nil {
			err = db2.Open()
		}
		if err != nil {
			out.ContErr = "reopen after continuation: " + err.Error()
		} else {
			out.Reads2 = map[string]*string{}
			for _, hk := range klist {
				if hk == "" {
					continue
				}
				k, _ := hex.DecodeString(hk)
				v, err := db2.GetBytes(k)
				if err != nil {
					if errors.Is(err, simpledb.ErrNotFound) {
						out.Reads2[hk] = nil
						continue
					}
					out.ContErr = fmt.Sprintf("GetBytes(%s) after continuation: %v", hk, err)
					break
				}
				hv := hex.EncodeToString(v)
				out.Reads2[hk] = &hv
			}
			if err := db2.Close(); err != nil && out.ContErr == "" {
				out.ContErr = "close after continuation: " + err.Error()
			}
		}
	}
	b, _ := json.Marshal(out)
	fmt.Println(string(b))
	return 0
}

func init() {
	fw.RegisterSub("e2session", e2Session)
	fw.RegisterSub("e2recover", e2Recover)
}

// ------------------------------------------------------------------ parent side

const e2TraceSet = "trace=openat,open,creat,write,pwrite64,writev,pwritev,lseek,ftruncate,truncate,rename,renameat,renameat2,unlink,unlinkat,rmdir,mkdir,mkdirat,close,fsync,fdatasync,dup,dup2,dup3,link,linkat,symlink,symlinkat,copy_file_range,sendfile,fallocate"

// e2Trace runs a child sub-command under strace and returns the log path.
func e2Trace(work, logName string, timeoutS int, strSize int, args ...string) (string, fw.SubResult) {
	logPath := filepath.Join(work, logName)
	full := []string{"-s", "QUIT", "-k", "5", fmt.Sprint(timeoutS), "strace", "-f", "-qq", "-xx", "-s", fmt.Sprint(strSize), "-e", e2TraceSet, "-e", "signal=none", "-o", logPath, fw.Self()}
	full = append(full, args...)
	of, _ := os.CreateTemp(work, "tr-out-*")
	ef, _ := os.CreateTemp(work, "tr-err-*")
	cmd := exec.Command("timeout", full...)
	cmd.Stdout, cmd.Stderr = of, ef
	cmd.Dir = work
	err := cmd.Run()
	of.Close()
	ef.Close()
	res := fw.SubResult{Err: err}
	res.Stdout, _ = os.ReadFile(of.Name())
	eb, _ := os.ReadFile(ef.Name())
	res.Stderr = cutS(string(eb), 4000)
	os.Remove(of.Name())
	os.Remove(ef.Name())
	if ee, ok := err.(*exec.ExitError); ok {
		res.Exit = ee.ExitCode()
		res.TimedOut = res.Exit == 124 || res.Exit == 137
	} else if err != nil {
		res.Exit = -1
	}
	return logPath, res
}

type e2Op struct {
	I    int
	Kind string // put | del | badput
	K    string // hex
	V    string // hex or sha:...
	Err  bool
	Done bool // ACK seen
}

// e2State follows the markers of a session log.
type e2State struct {
	refusing bool // the session's WAL writer refuses synchronous appends: errors are expected, acknowledgements still bind
	faulted  bool // a WAL write failed in this session: later errors are expected until the next Open
	ops      []e2Op
	model    map[string]*string // state after all ACKed, successful operations (hex key -> hex value)
	inflight []int              // indexes of the ops with INV but no ACK yet (several only in sessions with concurrent clients, which own disjoint keys)
	open     int                // >0 between open-begin and open-done
	closing  int
	flushB   int
	flushE   int
	compB    int
	compE    int
	session  string
	fatal    string
	ended    bool
	// async bookkeeping: number of ops acknowledged when the most recent WAL file was created
	ackedCount      int
	ackedAtWal      int
	walAcked        map[int]bool   // indexes of the ops that were acknowledged when the most recent WAL file was created
	concStart       int            // index of the first op of the concurrent-clients phase (-1: not begun)
	owner           map[string]int // hex key -> client that owns it in the concurrent-clients phase
	concurrent      int            // sessions driven by concurrent clients
	scratchPuts     int            // puts whose value was handed over in a reused caller buffer
	maxInflight     int
	opErrUnexpected []string
}

func newE2State() *e2State {
	return &e2State{model: map[string]*string{}, concStart: -1, owner: map[string]int{}, walAcked: map[int]bool{}}
}

// noteWalCreated remembers which operations were acknowledged at the moment the newest WAL file appeared
func (s *e2State) noteWalCreated() {
	s.ackedAtWal = s.ackedCount
	s.walAcked = map[int]bool{}
	for i, op := range s.ops {
		if op.Done {
			s.walAcked[i] = true
		}
	}
}

func (s *e2State) marker(m string) {
	f := strings.SplitN(m, " ", 5)
	switch f[0] {
	case "INV":
		if len(f) < 4 {
			return
		}
		op := e2Op{Kind: f[2], K: f[3]}
		fmt.Sscan(f[1], &op.I)
		if len(f) >= 5 {
			op.V = f[4]
		}
		s.ops = append(s.ops, op)
		s.inflight = append(s.inflight, len(s.ops)-1)
		if len(s.inflight) > s.maxInflight {
			s.maxInflight = len(s.inflight)
		}
	case "ACK":
		if len(s.inflight) == 0 || len(f) < 2 {
			return
		}
		var ackI int
		fmt.Sscan(f[1], &ackI)
		pos := -1
		for i, oi := range s.inflight {
			if s.ops[oi].I == ackI {
				pos = i
			}
		}
		if pos < 0 {
			return
		}
		op := &s.ops[s.inflight[pos]]
		s.inflight = append(s.inflight[:pos:pos], s.inflight[pos+1:]...)
		op.Done = true
		op.Err = len(f) >= 3 && f[2] == "err"
		if op.Err && op.Kind == "faultput" {
			s.faulted = true // the WAL writer is in its error state until the next Open
		}
		if op.Err && op.Kind != "badput" && !s.faulted && !s.refusing {
			s.opErrUnexpected = append(s.opErrUnexpected, m)
		}
		if !op.Err {
			e2Apply(s.model, *op)
		}
		s.ackedCount++
	case "PHASE":
		switch f[1] {
		case "open-begin":
			s.open++
		case "open-done":
			s.open--
			s.faulted = false
		case "concurrent-clients":
			s.concurrent++
			s.concStart = len(s.ops)
		case "close-failed-after-fault":
			s.closing--
		case "close-begin":
			s.closing++
		case "close-done":
			s.closing--
		}
	case "HOOK":
		switch f[1] {
		case "flush.begin":
			s.flushB++
		case "flusher.done":
			s.flushE++
		case "compaction.selected":
			s.compB++
		case "compaction.reflected":
			s.compE++
		}
	case "SCRATCH":
		s.scratchPuts++
	case "OWNER":
		if len(f) >= 3 {
			var cl int
			fmt.Sscan(f[2], &cl)
			s.owner[f[1]] = cl
		}
	case "SESSION":
		s.session = m
		s.concStart = -1
		// a synchronous session on a direct-I/O WAL may refuse its writes (documented limitation of that writer)
		s.refusing = strings.Contains(m, "async=false directIOWAL=true")
	case "FATAL":
		s.fatal = m
	case "END":
		s.ended = true
	}
}

func e2Apply(m map[string]*string, op e2Op) {
	switch op.Kind {
	case "put", "faultput":
		v := op.V
		m[op.K] = &v
	case "del":
		m[op.K] = nil
	}
}

func (s *e2State) phase() string {
	var p []string
	if s.open > 0 {
		p = append(p, "open")
	}
	if s.closing > 0 {
		p = append(p, "close")
	}
	if s.flushB > s.flushE {
		p = append(p, "flush")
	}
	if s.compB > s.compE {
		p = append(p, "compaction")
	}
	if len(p) == 0 {
		return "operations"
	}
	return strings.Join(p, "+")
}

var reDigits = regexp.MustCompile(`[0-9]+`)

func pathPattern(p string) string {
	p = reDigits.ReplaceAllString(p, "N")
	return p
}

var rePath = regexp.MustCompile(`(^|['" ])/[A-Za-z0-9_./-]*`)

// errClass makes an error text seed-independent: the image directory prefix is removed (so paths become patterns like
// 'sstable_N/index.rio'), numbers become N, and only the innermost two causes are kept.
func errClass(msg string, dirs ...string) string {
	m := msg
	for _, d := range dirs {
		m = strings.ReplaceAll(m, d+"/", "")
		m = strings.ReplaceAll(m, d, ".")
	}
	m = rePath.ReplaceAllString(m, "${1}P")
	m = reDigits.ReplaceAllString(m, "N")
	m = strings.ReplaceAll(m, "\n", " ")
	parts := strings.Split(m, ": ")
	if len(parts) > 2 {
		parts = parts[len(parts)-2:]
	}
	m = strings.Join(parts, ": ")
	if len(m) > 110 {
		m = m[:110]
	}
	return strings.TrimSpace(m)
}

type e2Job struct {
	cont     bool // also run the fixed continuation and judge the second read-all
	seq      int
	variant  string // "" or "listing-order:<restored files>"
	dir      string
	phase    string
	after    string // call:pattern of the mutation that produced the image
	expectA  map[string]*string
	expectAF map[string]*string // nil if no op in flight
	inflight string
	listing  []string
	// async: admissible prefixes (each a model) — expectA is then the full-ack model and prefixes holds all models p=L..n
	prefixes  []map[string]*string
	minPrefix int
	// async session driven by concurrent clients: if no whole-state prefix fits, every client's own keys must read as
	// the state at the begin of the phase plus some prefix of THAT client's calls (clients own disjoint keys)
	clientKeys     [][]string
	clientPrefixes [][]map[string]*string
}

type e2Verdict struct {
	sig, detail string
}

func copyModel(m map[string]*string) map[string]*string {
	out := make(map[string]*string, len(m))
	for k, v := range m {
		out[k] = v
	}
	return out
}

func sameVal(a, b *string) bool {
	if a == nil || b == nil {
		return a == nil && b == nil
	}
	return *a == *b
}

func showVal(v *string) string {
	if v == nil {
		return "<not found>"
	}
	s := *v
	if b, err := hex.DecodeString(s); err == nil {
		s = string(b)
	}
	if len(s) > 24 {
		return fmt.Sprintf("%q..(%d)", s[:24], len(s))
	}
	return fmt.Sprintf("%q", s)
}

func showKey(hk string) string {
	b, _ := hex.DecodeString(hk)
	return fmt.Sprintf("%q", string(b))
}

// e2Judge runs recovery on a materialised image and applies the oracle.
func e2Judge(job e2Job, keys []string, rbuf, wbuf uint64, hashVals bool, c *fw.Case) *e2Verdict {
	args := []string{"e2recover", "-dir", job.dir, "-keys", strings.Join(keys, ","), "-rbuf", fmt.Sprint(rbuf), "-wbuf", fmt.Sprint(wbuf)}
	if hashVals {
		args = append(args, "-hashvals")
	}
	kill2 := job.cont && job.seq%2 == 1 // every second continuation ends in a second kill instead of a Close
	if job.cont {
		args = append(args, "-cont")
	}
	if kill2 {
		args = append(args, "-kill2")
	}
	res := fw.RunSub("", 120, nil, filepath.Dir(job.dir), args...)
	where := fmt.Sprintf("image #%d%s, phase %s, last completed call %s, op in flight: %s\nfiles: %s", job.seq, job.variant, job.phase, job.after, job.inflight, strings.Join(job.listing, " "))
	tail := ""
	if job.variant != "" {
		tail = "/other-listing-order"
	}
	if res.TimedOut {
		return &e2Verdict{"INCONCLUSIVE", "recovery watchdog expired on " + where}
	}
	var out e2RecoverOut
	if json.Unmarshal(bytes.TrimSpace(res.Stdout), &out) != nil {
		return &e2Verdict{"crash/recovery-process-died/" + fw.PanicSite(res.Stderr) + tail, fmt.Sprintf("the recovering process ended abnormally (exit %d) on %s\n%s", res.Exit, where, cutS(res.Stderr, 800))}
	}
	if out.OpenErr != "" {
		return &e2Verdict{"crash/open-fails/" + errClass(out.OpenErr, job.dir) + tail, fmt.Sprintf("Open fails on %s\nerror: %s", where, out.OpenErr)}
	}
	if out.GetErr != "" {
		return &e2Verdict{"crash/get-fails/" + errClass(out.GetErr, job.dir) + tail, fmt.Sprintf("%s on %s", out.GetErr, where)}
	}
	if out.CloseErr != "" {
		return &e2Verdict{"crash/close-after-recovery-fails/" + errClass(out.CloseErr, job.dir) + tail, fmt.Sprintf("Close: %s on %s", out.CloseErr, where)}
	}
	if job.prefixes != nil {
		// asynchronous WAL: the content must equal the model after some admissible prefix
		for _, pm := range job.prefixes {
			ok := true
			for _, k := range keys {
				if !sameVal(out.Reads[k], pm[k]) {
					ok = false
					break
				}
			}
			if ok {
				return nil
			}
		}
		if job.clientPrefixes != nil {
			all := true
			for cl := range job.clientPrefixes {
				fits := false
				for _, pm := range job.clientPrefixes[cl] {
					ok := true
					for _, k := range job.clientKeys[cl] {
						if !sameVal(out.Reads[k], pm[k]) {
							ok = false
							break
						}
					}
					if ok {
						fits = true
						break
					}
				}
				if !fits {
					all = false
					break
				}
			}
			if all {
				return nil
			}
		}
		var d []string
		for _, k := range keys {
			d = append(d, fmt.Sprintf("%s=%s", showKey(k), showVal(out.Reads[k])))
		}
		if job.clientPrefixes != nil {
			tail = "/concurrent-clients" + tail
		}
		return &e2Verdict{"crash/async-content-is-no-admissible-prefix" + tail, fmt.Sprintf("recovered content equals no prefix p of the acknowledged sequence with p >= %d (operations before the last rotation) on %s\ncontent: %s", job.minPrefix, where, strings.Join(d, " "))}
	}
	for _, k := range keys {
		got := out.Reads[k]
		if sameVal(got, job.expectA[k]) || (job.expectAF != nil && sameVal(got, job.expectAF[k])) {
			continue
		}
		kind := "stale-or-wrong-value"
		if job.expectA[k] == nil && got != nil {
			kind = "deleted-or-never-written-key-readable"
		} else if got == nil {
			kind = "acknowledged-write-lost"
		}
		return &e2Verdict{"crash/wrong-content/" + kind + "/" + job.phase + tail, fmt.Sprintf("key %s reads %s after recovery, acknowledged state says %s on %s", showKey(k), showVal(got), showVal(job.expectA[k]), where)}
	}
	contKind := ""
	if kill2 && out.ContErr == "" {
		// recover the directory once more (the first recovering process has ended without Close)
		contKind = "-and-second-kill"
		c.Obs("continuations_ended_by_a_second_kill", 1)
		res2 := fw.RunSub("", 120, nil, filepath.Dir(job.dir), "e2recover", "-dir", job.dir, "-keys", strings.Join(keys, ","), "-rbuf", fmt.Sprint(rbuf), "-wbuf", fmt.Sprint(wbuf))
		var out2 e2RecoverOut
		switch {
		case res2.TimedOut:
			return &e2Verdict{"INCONCLUSIVE", "second recovery watchdog expired on " + where}
		case json.Unmarshal(bytes.TrimSpace(res2.Stdout), &out2) != nil:
			return &e2Verdict{"crash/recovery-process-died/after-second-kill/" + fw.PanicSite(res2.Stderr) + tail, fmt.Sprintf("the process recovering after the second kill ended abnormally (exit %d) on %s\n%s", res2.Exit, where, cutS(res2.Stderr, 800))}
		case out2.OpenErr != "":
			out.ContErr = "reopen after the second kill: " + out2.OpenErr
		case out2.GetErr != "":
			out.ContErr = out2.GetErr
		default:
			out.Reads2 = out2.Reads
		}
	}
	if job.cont {
		// the recovered database must keep behaving like the map: fixed continuation (put keys[0], delete keys[1]), restart, read-all
		if out.ContErr != "" {
			return &e2Verdict{"crash/continuation-after-recovery-fails/" + errClass(out.ContErr, job.dir) + tail, fmt.Sprintf("%s on %s", out.ContErr, where)}
		}
		cv := hex.EncodeToString([]byte("continuation-value"))
		for i, k := range keys {
			got := out.Reads2[k]
			wantA, wantAF := job.expectA[k], (*string)(nil)
			if job.expectAF != nil {
				wantAF = job.expectAF[k]
			}
			switch i {
			case 0:
				wantA, wantAF = &cv, &cv
			case 1:
				wantA, wantAF = nil, nil
			}
			if sameVal(got, wantA) || (job.expectAF != nil && sameVal(got, wantAF)) {
				continue
			}
			return &e2Verdict{"crash/wrong-content-after-continuation" + contKind + "/" + job.phase + tail, fmt.Sprintf("after recovery + put(%s) + delete(%s) + restart key %s reads %s, expected %s on %s", showKey(keys[0]), showKey(keys[1]), showKey(k), showVal(got), showVal(wantA), where)}
		}
	}
	return nil
}

type e2Summary struct {
	contJudged                          int
	concurrent, maxInflight             int
	scratchPuts                         int
	mutations, images, distinct, judged int
	byPhase                             map[string]int
	verdicts                            map[string]*e2Verdict
	verdictCount                        map[string]int
	inconclusive                        []string
	problems                            []string
	ops                                 int
	fidelity                            []string
	keys                                []string
	cutWal                              int // images whose newest WAL file ends inside a record
	opsList                             []e2Op
}

type e2Config struct {
	bigSync    bool   // sync WAL with values larger than the WAL buffer
	mode       string // sync | async | c17
	big        bool
	directSync bool // sync mode: the second session is opened with the direct-I/O WAL option (and without the async option)
	directWAL  bool // the big asynchronous session logs through the direct-I/O WAL writer (database directory on a real disk)
	seed       int64
	nkeys      int
	maxImages  int // 0 = all
}

// e2RunSession traces one session, replays it and judges every distinct crash image.
func e2RunSession(c *fw.Case, cfg e2Config) *e2Summary {
	work := realDir(c.Dir) // (the traced process sees real paths: a case directory reached through a link is resolved once)
	dbdir := filepath.Join(work, "db")
	if cfg.directWAL {
		dbdir = filepath.Join(c.DiskDir(), "db") // O_DIRECT needs a real file system
	}
	_ = os.MkdirAll(dbdir, 0755)
	ctl := filepath.Join(work, "ctl")
	strSize := 300000
	if cfg.big || cfg.bigSync || cfg.directSync {
		strSize = 9000000
	}
	args := []string{"e2session", "-dir", dbdir, "-ctl", ctl, "-mode", cfg.mode, "-seed", fmt.Sprint(cfg.seed), "-keys", fmt.Sprint(cfg.nkeys)}
	if cfg.big {
		args = append(args, "-big")
	}
	if cfg.bigSync {
		args = append(args, "-bigsync")
	}
	if cfg.directWAL {
		args = append(args, "-directwal")
	}
	if cfg.directSync {
		args = append(args, "-directsync")
	}
	logPath, res := e2Trace(work, "trace.log", 240, strSize, args...)
	sum := &e2Summary{byPhase: map[string]int{}, verdicts: map[string]*e2Verdict{}, verdictCount: map[string]int{}}
	if res.TimedOut {
		sum.inconclusive = append(sum.inconclusive, "traced session watchdog expired")
		return sum
	}
	for i := 0; i < cfg.nkeys; i++ {
		sum.keys = append(sum.keys, hex.EncodeToString([]byte(fmt.Sprintf("k%d", i))))
	}
	if cfg.mode == "c17" {
		sum.keys = append(sum.keys, "") // the empty key must stay unreadable
	}
	sessionDied := res.Exit != 0

	// pass 1: fidelity — the final replayed image must equal the directory the process really left
	rp := strace.NewReplayer(dbdir, ctl)
	st := newE2State()
	_ = strace.ReadLog(logPath, func(line string) error {
		for _, ev := range rp.Feed(line) {
			if ev.Kind == "marker" {
				st.marker(ev.Marker)
			}
		}
		return nil
	})
	sum.ops = len(st.ops)
	sum.concurrent, sum.maxInflight = st.concurrent, st.maxInflight
	sum.scratchPuts = st.scratchPuts
	sum.opsList = append([]e2Op{}, st.ops...)
	if len(rp.Problems) > 0 {
		sum.problems = rp.Problems
		sum.inconclusive = append(sum.inconclusive, "replayer did not understand part of the log: "+rp.Problems[0])
		return sum
	}
	if d := rp.CompareWithDisk(dbdir); len(d) > 0 {
		sum.fidelity = d
		sum.inconclusive = append(sum.inconclusive, "fidelity self-check failed (replayed final image differs from the real directory): "+strings.Join(d[:min(3, len(d))], "; "))
		return sum
	}
	if sessionDied || st.fatal != "" {
		// the traced process itself failed without any crash: that is a finding of its own
		v := &e2Verdict{"crash/session-failed-without-crash/" + errClass(st.fatal+" "+fw.PanicSite(res.Stderr), dbdir), fmt.Sprintf("the traced session ended abnormally (exit %d) %s\n%s", res.Exit, st.fatal, cutS(res.Stderr, 600))}
		sum.verdicts[v.sig] = v
		sum.verdictCount[v.sig]++
	}
	for _, m := range st.opErrUnexpected {
		v := &e2Verdict{"crash/valid-call-returned-error", "in the traced session: " + m}
		sum.verdicts[v.sig] = v
		sum.verdictCount[v.sig]++
	}
	sum.mutations = rp.Mutations

	// pass 2: images
	rp = strace.NewReplayer(dbdir, ctl)
	st = newE2State()
	seen := map[string]bool{}
	jobs := make(chan e2Job, 64)
	var wg sync.WaitGroup
	var vmu sync.Mutex
	rbuf, wbuf := uint64(4096), uint64(4096)
	lr := rand.New(rand.NewSource(cfg.seed ^ 0x5eed))
	for w := 0; w < 6; w++ {
		wg.Add(1)
		go func() {
			defer wg.Done()
			for job := range jobs {
				v := e2Judge(job, sum.keys, rbuf, wbuf, cfg.big || cfg.bigSync, c)
				_ = os.RemoveAll(job.dir)
				vmu.Lock()
				sum.judged++
				if v != nil {
					if v.sig == "INCONCLUSIVE" {
						sum.inconclusive = append(sum.inconclusive, v.detail)
					} else {
						if sum.verdicts[v.sig] == nil {
							sum.verdicts[v.sig] = v
						}
						sum.verdictCount[v.sig]++
					}
				}
				vmu.Unlock()
			}
		}()
	}
	imgNo := 0
	emit := func(ev strace.Event, variant string, extra map[string][]byte) {
		sum.images++
		// expected content
		expA := st.model
		var expAF map[string]*string
		infl := "none"
		if len(st.inflight) > 0 {
			infl = ""
			expAF = copyModel(st.model)
			for _, oi := range st.inflight {
				op := st.ops[oi]
				infl += fmt.Sprintf("#%d %s(%s) ", op.I, op.Kind, showKey(op.K))
				e2Apply(expAF, op) // concurrent clients own disjoint keys: per key at most one call is in flight
			}
		}
		h := sha256.New()
		fmt.Fprintf(h, "%s|", rp.Hash())
		var ek []string
		for k := range extra {
			ek = append(ek, k)
		}
		sort.Strings(ek)
		for _, k := range ek {
			fmt.Fprintf(h, "x:%s:%x|", k, sha256.Sum256(extra[k]))
		}
		for _, k := range sum.keys {
			fmt.Fprintf(h, "%s=%s/", k, showVal(expA[k]))
			if expAF != nil {
				fmt.Fprintf(h, "%s;", showVal(expAF[k]))
			}
		}
		if cfg.mode == "async" {
			fmt.Fprintf(h, "L%d-%d-%d", st.ackedAtWal, len(st.ops), len(st.walAcked))
		}
		key := hex.EncodeToString(h.Sum(nil)[:12])
		if seen[key] {
			return
		}
		seen[key] = true
		sum.distinct++
		if cfg.maxImages > 0 && sum.distinct > cfg.maxImages {
			return
		}
		if (cfg.mode == "async" || cfg.bigSync) && e2NewestWalIsCut(rp) {
			sum.cutWal++
		}
		imgNo++
		d := filepath.Join(work, fmt.Sprintf("img-%d", imgNo))
		if err := rp.Materialise(d, extra); err != nil {
			sum.inconclusive = append(sum.inconclusive, "materialise: "+err.Error())
			return
		}
		job := e2Job{seq: ev.Seq, variant: variant, dir: d, phase: st.phase(), after: ev.Call + ":" + pathPattern(ev.Path), expectA: copyModel(expA), expectAF: expAF, inflight: infl, listing: rp.Listing()}
		if cfg.mode == "async" && st.concStart >= 0 {
			e2ConcurrentPrefixes(st, &job, sum.keys)
		} else if cfg.mode == "async" {
			// admissible prefixes: every p with ackedAtWal <= p <= number of invoked operations
			job.minPrefix = st.ackedAtWal
			m := map[string]*string{}
			for i, op := range st.ops {
				if i == job.minPrefix {
					job.prefixes = append(job.prefixes, copyModel(m))
				}
				if !(op.Done && op.Err) {
					e2Apply(m, op)
				}
				if i+1 > job.minPrefix {
					job.prefixes = append(job.prefixes, copyModel(m))
				}
			}
			if len(st.ops) == job.minPrefix {
				job.prefixes = append(job.prefixes, copyModel(m))
			}
		}
		job.cont = cfg.mode == "sync" && !cfg.bigSync && imgNo%4 == 0
		if job.cont {
			sum.contJudged++
		}
		sum.byPhase[job.phase]++
		jobs <- job
	}
	_ = strace.ReadLog(logPath, func(line string) error {
		for _, ev := range rp.Feed(line) {
			switch ev.Kind {
			case "marker":
				st.marker(ev.Marker)
			case "walcreate":
				st.noteWalCreated()
			case "mutation":
				emit(ev, "", nil)
				if ev.Call == "unlink" && len(rp.UnlinkRun) >= 2 {
					// other directory listing orders: any subset of the files removed so far could still be there
					run := append([]string{}, rp.UnlinkRun...)
					n := len(run)
					var masks []int
					if n <= 4 {
						for m := 1; m < (1 << n); m++ {
							masks = append(masks, m)
						}
					} else {
						for i := 0; i < 6; i++ {
							masks = append(masks, 1+lr.Intn((1<<n)-1))
						}
					}
					for _, m := range masks {
						extra := map[string][]byte{}
						var names []string
						for i, p := range run {
							if m&(1<<i) != 0 {
								extra[p] = rp.UnlinkSaved[p]
								names = append(names, filepath.Base(p))
							}
						}
						emit(ev, " [listing-order variant: still present "+strings.Join(names, ",")+"]", extra)
					}
				}
			}
		}
		return nil
	})
	close(jobs)
	wg.Wait()
	return sum
}

// e2ConcurrentPrefixes fills in the admissible states of an asynchronous session whose last phase is driven by
// concurrent clients. Operations before the phase form one sequence (whole-state prefixes, admissible only while no
// call of the phase is known to be durable); inside the phase the log order across clients is not observable, so each
// client's keys are judged against the prefixes of that client's own call sequence.
func e2ConcurrentPrefixes(st *e2State, job *e2Job, keys []string) {
	C := st.concStart
	seqMin, concDurable := 0, false
	for i := range st.ops {
		if st.walAcked[i] {
			if i < C {
				seqMin = i + 1
			} else {
				concDurable = true
			}
		}
	}
	job.minPrefix = seqMin
	m := map[string]*string{}
	job.prefixes = []map[string]*string{}
	for i := 0; i <= C && i <= len(st.ops); i++ {
		if i >= seqMin && i < C && !concDurable {
			job.prefixes = append(job.prefixes, copyModel(m))
		}
		if i < C && i < len(st.ops) {
			if op := st.ops[i]; !(op.Done && op.Err) {
				e2Apply(m, op)
			}
		}
	}
	base := m // state after every call before the phase
	nclients := 0
	for _, cl := range st.owner {
		if cl+1 > nclients {
			nclients = cl + 1
		}
	}
	job.clientKeys = make([][]string, nclients)
	job.clientPrefixes = make([][]map[string]*string, nclients)
	for _, k := range keys {
		if cl, ok := st.owner[k]; ok {
			job.clientKeys[cl] = append(job.clientKeys[cl], k)
		}
	}
	for cl := 0; cl < nclients; cl++ {
		cm := map[string]*string{}
		for _, k := range job.clientKeys[cl] {
			cm[k] = base[k]
		}
		// the client's calls in its program order; everything up to its last durable call is mandatory
		var mine []int
		last := -1
		for i := C; i < len(st.ops); i++ {
			if c2, ok := st.owner[st.ops[i].K]; ok && c2 == cl {
				if st.walAcked[i] {
					last = len(mine)
				}
				mine = append(mine, i)
			}
		}
		if last < 0 {
			job.clientPrefixes[cl] = append(job.clientPrefixes[cl], copyModel(cm))
		}
		for n, i := range mine {
			if op := st.ops[i]; !(op.Done && op.Err) {
				e2Apply(cm, op)
			}
			if n >= last {
				job.clientPrefixes[cl] = append(job.clientPrefixes[cl], copyModel(cm))
			}
		}
	}
}

// e2NewestWalIsCut tells (with the harness's own layout parser) whether the newest WAL file of the current
// image ends inside a record.
func e2NewestWalIsCut(rp *strace.Replayer) bool { return e2NewestWalIsCutIn(rp, "wal/") }

func e2NewestWalIsCutIn(rp *strace.Replayer, prefix string) bool {
	newest := ""
	for _, l := range rp.Listing() {
		name := strings.Fields(l)[0]
		if strings.HasPrefix(name, prefix) && strings.HasSuffix(name, ".wal") && name > newest {
			newest = name
		}
	}
	if newest == "" {
		return false
	}
	data := rp.FileData(filepath.Join(rp.Root, newest))
	if len(data) < 8 {
		return len(data) > 0
	}
	pf, err := rio.Parse(data)
	return err == nil && pf.Tail != len(data)
}
