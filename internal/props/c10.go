package props

import (
	"bytes"
	"encoding/hex"
	"encoding/json"
	"flag"
	"fmt"
	"math/rand"
	"os"
	"os/exec"
	"path/filepath"
	"sort"
	"strings"
	"sync"
	"time"

	"github.com/thomasjungblut/go-sstables/simpledb"
	"github.com/thomasjungblut/go-sstables/skiplist"
	"github.com/thomasjungblut/go-sstables/sstables"

	"verif/internal/fw"
	"verif/internal/strace"
)

// C10 — recovery may be killed at any instant and repeated without changing the outcome.
// Level 1 = crash images of a traced C02-style session (sampled per phase, plus the final image). For each, the
// uninterrupted recovery gives R0; then the recovery itself is traced, every boundary inside Open (plus unlink-order
// variants) is a level-2 image, and a fresh Open on it must succeed and read exactly R0, and after a fixed continuation (put k0, delete k1, Close, Open) it must again read exactly what the uninterrupted path reads after the same continuation. Depth 3 on a sample.

func init() {
	fw.Register(&fw.Prop{
		ID: "C10",
		Meta: func(tier string) fw.Meta {
			n := 4 + 20
			if tier == "thorough" {
				n = 60 + 300
			}
			return fw.Meta{N: n, Level: "fault_enumeration", Chunk: 1, CaseTimeoutS: 1800, MinNT: 10, Workers: 6,
				Rule:        "one case = one traced synchronous-WAL session (as in C02); from its distinct crash images up to 24 (quick) / 60 (thorough) level-1 images are drawn per phase bucket (open / close / flush / compaction / operations) plus the final image; a further 20 (quick) / 300 (thorough) cases start from HAND-PLACED kill images (a process that ends without Close): WAL holding only deletes / only puts / both over 1..3 tables, a finished flagged compaction that was never reflected plus a non-empty WAL, and the same with some input files already removed; for each recoverable one: R0 = read-all after an uninterrupted Open+Close; the same recovery is then run under strace on a fresh copy (fidelity: final replayed image == directory left) and after EVERY mutating system call of that Open/Close (plus all subsets of every unlink run of <= 4 files, sampled beyond = other directory listing orders) a level-2 image is materialised; a fresh Open on it must succeed and read exactly R0, and after a fixed continuation (put k0, delete k1, Close, Open) it must again read exactly what the uninterrupted path reads after the same continuation. In the thorough tier 3 level-2 images per level-1 image are traced again (depth 3). evaluations = level-2/3 images recovered; non-trivial = level-1 image whose recovery performs >= 5 mutations",
				MinObs:      map[string]int64{"level1_images": 40, "level1_with_wal_replay": 10, "level1_with_pending_compaction": 3, "level2_images_recovered": 2000, "level2_listing_order_variants": 200, "level1_crafted": 15},
				Assumptions: []string{"kill -9 model as in C02", "level-1 images whose Open fails are C02's findings and are skipped here"},
			}
		},
		Run: func(c *fw.Case) {
			ns := 4
			if c.Thorough() {
				ns = 60
			}
			if c.Idx >= ns {
				runC10Crafted(c, c.Idx-ns)
				return
			}
			runC10(c)
		},
	})
	fw.RegisterSub("c10craft", c10Craft)
}

// c10Craft builds a hand-placed level-1 image and then ends WITHOUT Close (os.Exit = what kill -9 leaves, all
// completed system calls retained). Scenarios: 0 = WAL holding only deletes after a flush; 1 = WAL holding only
// puts; 2 = WAL with puts and deletes over 2..4 flushed tables; 3 = a finished (flagged) but unreflected
// compaction plus a non-empty WAL; 4 = as 3 with some input files already removed (kill inside the live reflection).
func c10Craft(args []string) int {
	fs := flag.NewFlagSet("c10craft", flag.ExitOnError)
	dir := fs.String("dir", "", "")
	scenario := fs.Int("scenario", 0, "")
	seed := fs.Int64("seed", 1, "")
	_ = fs.Parse(args)
	r := rand.New(rand.NewSource(*seed))
	db, err := simpledb.NewSimpleDB(*dir, simpledb.DisableCompactions(), simpledb.MemstoreSizeBytes(1<<30), simpledb.WriteBufferSizeBytes(64),
		simpledb.CompactionFileThreshold(0), simpledb.CompactionMaxSizeBytes(1<<40))
	if err == nil {
		err = db.Open()
	}
	if err != nil {
		fmt.Println("ERR", err)
		return 3
	}
	key := func() string { return fmt.Sprintf("k%d", r.Intn(8)) }
	put := func(n int) {
		for i := 0; i < n; i++ {
			_ = db.Put(key(), fmt.Sprintf("c%d-%d-%s", *scenario, r.Intn(100000), strings.Repeat("z", r.Intn(30))))
		}
	}
	del := func(n int) {
		for i := 0; i < n; i++ {
			_ = db.Delete(key())
		}
	}
	table := func() {
		put(3 + r.Intn(6))
		if r.Intn(2) == 0 {
			del(1 + r.Intn(2))
		}
		_ = db.VerifForceRotate()
		waitFlushIdle(60 * time.Second)
	}
	ntab := 1 + r.Intn(3)
	if *scenario == 5 {
		ntab = 0
	}
	for i := 0; i < ntab; i++ {
		table()
	}
	switch *scenario {
	case 6:
		// everything that was flushed is deleted again and one compaction over ALL tables has run to its success flag:
		// its merged table is empty; the image has it flagged but not installed
		for i := 0; i < 8; i++ {
			_ = db.Delete(fmt.Sprintf("k%d", i))
		}
		_ = db.VerifForceRotate()
		waitFlushIdle(60 * time.Second)
		md, err := db.VerifExecuteCompactionOnly()
		if err != nil || md == nil {
			fmt.Println("ERR compaction", err)
			return 3
		}
		if r.Intn(2) == 0 {
			put(1 + r.Intn(2))
		}
	case 7:
		// (the directory already holds a legacy-format table, placed there before this process opened it)
		put(1 + r.Intn(4))
	case 5:
		// a compaction over 170..210 one-record tables: its success flag lists so many inputs that it is written with
		// several write calls; the image has the flag cut after the first full buffer (8-byte header + 4096 bytes)
		for i := 0; i < 170+r.Intn(40); i++ {
			put(1)
			_ = db.VerifForceRotate()
			waitFlushIdle(60 * time.Second)
		}
		md, err := db.VerifExecuteCompactionOnly()
		if err != nil || md == nil {
			fmt.Println("ERR compaction", err)
			return 3
		}
		put(1 + r.Intn(3))
		cut := false
		ents, _ := os.ReadDir(*dir)
		for _, e := range ents {
			if strings.HasPrefix(e.Name(), simpledb.SSTableCompactionPathPrefix) {
				fp := filepath.Join(*dir, e.Name(), simpledb.CompactionFinishedSuccessfulFileName)
				if st, err := os.Stat(fp); err == nil && st.Size() > 8+4096 {
					cut = os.Truncate(fp, 8+4096) == nil
				}
			}
		}
		if !cut {
			fmt.Println("ERR the flag file did not exceed one write buffer")
			return 3
		}
	case 0:
		del(1 + r.Intn(4))
	case 1:
		put(1 + r.Intn(4))
	case 2:
		put(2 + r.Intn(4))
		del(1 + r.Intn(3))
		put(r.Intn(3))
	case 3, 4:
		table()
		md, err := db.VerifExecuteCompactionOnly()
		if err != nil || md == nil {
			fmt.Println("ERR compaction", err)
			return 3
		}
		if r.Intn(2) == 0 {
			del(1 + r.Intn(3))
		} else {
			put(1 + r.Intn(3))
		}
		if *scenario == 4 {
			// remove some files of the inputs, oldest input first, as the live reflection would have done when killed
			nIn := 1 + r.Intn(len(md.SstablePaths))
			for i := 0; i < nIn; i++ {
				p := filepath.Join(*dir, md.SstablePaths[i])
				ents, _ := os.ReadDir(p)
				last := i == nIn-1
				for j, e := range ents {
					if last && j >= 1+r.Intn(len(ents)) {
						break
					}
					_ = os.Remove(filepath.Join(p, e.Name()))
				}
				if !last {
					_ = os.Remove(p)
				}
			}
		}
	}
	fmt.Println("CRAFTED")
	os.Exit(0) // no Close: this is the kill
	return 0
}

func runC10Crafted(c *fw.Case, j int) {
	work := realDir(c.Dir) // (the traced process sees real paths: a case directory reached through a link is resolved once)
	dir := filepath.Join(work, "crafted")
	_ = os.MkdirAll(dir, 0755)
	scenario := j % 8
	seed := fw.CaseSeed("C10-crafted", c.Seed, j)
	c.HashAdd("crafted", scenario, seed)
	lr := rand.New(rand.NewSource(seed ^ 0x77))
	var legacyKeys []string
	if scenario == 7 {
		// the oldest table of the directory is one of the repository's legacy-format fixtures (no metadata file)
		rd := os.Getenv("VERIF_REPO_DIR")
		src := filepath.Join(rd, "sstables", "test_files", "v0_compat", "SimpleWriteHappyPathSSTable")
		dst := filepath.Join(dir, fmt.Sprintf(simpledb.SSTablePattern, 1))
		if rd == "" || copyDir(src, dst) != nil {
			c.Inconclusive("legacy fixture table not available")
			return
		}
		if lr, err := sstables.NewSSTableReader(sstables.ReadBasePath(dst), sstables.ReadWithKeyComparator(skiplist.BytesComparator{})); err == nil {
			if it, err := lr.Scan(); err == nil {
				for {
					k, _, err := it.Next()
					if err != nil {
						break
					}
					legacyKeys = append(legacyKeys, hex.EncodeToString(k))
				}
			}
			_ = lr.Close()
		}
	}
	res := fw.RunSub("", 120, nil, work, "c10craft", "-dir", dir, "-scenario", fmt.Sprint(scenario), "-seed", fmt.Sprint(seed))
	if res.TimedOut || !strings.Contains(string(res.Stdout), "CRAFTED") {
		c.Inconclusive(fmt.Sprintf("crafting scenario %d failed (exit %d): %s %s", scenario, res.Exit, cutS(string(res.Stdout), 200), cutS(res.Stderr, 300)))
		return
	}
	var keys []string
	for i := 0; i < 8; i++ {
		keys = append(keys, hex.EncodeToString([]byte(fmt.Sprintf("k%d", i))))
	}
	keys = append(keys, legacyKeys...)
	c.Obs("level1_images", 1)
	c.Obs("level1_crafted", 1)
	c.Obs(fmt.Sprintf("level1_crafted_scenario_%d", scenario), 1)
	if scenario <= 2 {
		c.Obs("level1_with_wal_replay", 1)
	} else {
		c.Obs("level1_with_pending_compaction", 1)
	}
	cp := dir + "-r0"
	_ = copyDir(dir, cp)
	out, _ := runRecover(work, cp, keys)
	_ = os.RemoveAll(cp)
	if out == nil || out.OpenErr != "" || out.GetErr != "" {
		oe := "process died"
		if out != nil {
			oe = out.OpenErr + out.GetErr
		}
		c.Violate("recovery-crash/crafted-image-not-recoverable/"+errClass(oe, cp), "scenario %d seed %d: the uninterrupted recovery of a hand-placed kill image fails: %s", scenario, seed, oe)
		return
	}
	for _, lk := range legacyKeys {
		if out.Reads[lk] == nil {
			c.Violate("recovery-crash/legacy-table-lost", "scenario %d seed %d: key %s of the legacy-format table that the directory started with is gone after the directory was opened, written to, killed and recovered", scenario, seed, showKey(lk))
			return
		}
	}
	agg := &c10Agg{verdicts: map[string]string{}, counts: map[string]int{}}
	label := fmt.Sprintf("hand-placed level-1 image, scenario %d (%s) seed=%d", scenario, []string{"WAL with deletes only", "WAL with puts only", "WAL with puts and deletes", "flagged unreflected compaction + WAL", "flagged compaction, inputs half removed + WAL", "compaction over ~190 tables whose success flag is cut between two of its writes + WAL", "flagged unreflected compaction whose merged table is EMPTY (+ WAL)", "legacy-format oldest table + WAL"}[scenario], seed)
	m := c10Nested(c, work, dir, keys, withCont(out), agg, 2, lr, label)
	c.Obs("level2_images_recovered", int64(agg.judged))
	c.Obs("level2_listing_order_variants", int64(agg.variants))
	var sigs []string
	for s := range agg.verdicts {
		sigs = append(sigs, s)
	}
	sort.Strings(sigs)
	for _, s := range sigs {
		c.Violate(s, "[%d images with this signature in this case]\n%s", agg.counts[s], agg.verdicts[s])
	}
	if m >= 5 {
		c.Nontrivial()
	}
	c.SetUnits(int64(max(agg.judged, 1)), 1)
	if j%5 == 0 {
		c.Sample(map[string]any{"crafted": label, "recovery_mutations": m, "level2_images_recovered": agg.judged})
	}
}

func copyDir(src, dst string) error {
	return exec.Command("cp", "-a", src, dst).Run()
}

func runRecover(work, dir string, keys []string) (*e2RecoverOut, fw.SubResult) {
	res := fw.RunSub("", 120, nil, work, "e2recover", "-cont", "-dir", dir, "-keys", strings.Join(keys, ","), "-rbuf", "4096", "-wbuf", "64")
	var out e2RecoverOut
	if json.Unmarshal(bytes.TrimSpace(res.Stdout), &out) != nil {
		return nil, res
	}
	return &out, res
}

func readsEqual(a, b map[string]*string, keys []string) string {
	for _, k := range keys {
		if !sameVal(a[k], b[k]) {
			return fmt.Sprintf("key %s reads %s, after the uninterrupted recovery it reads %s", showKey(k), showVal(a[k]), showVal(b[k]))
		}
	}
	// entries "cont:<key>" carry the reads after the fixed continuation (put, delete, close, open)
	for _, k := range keys {
		if _, ok := b["cont:"+k]; ok && !sameVal(a["cont:"+k], b["cont:"+k]) {
			return fmt.Sprintf("after the same continuation (put k0, delete k1, restart) key %s reads %s, on the uninterrupted path it reads %s", showKey(k), showVal(a["cont:"+k]), showVal(b["cont:"+k]))
		}
	}
	return ""
}

// withCont folds the second read-all into one map ("cont:<key>").
func withCont(out *e2RecoverOut) map[string]*string {
	m := map[string]*string{}
	for k, v := range out.Reads {
		m[k] = v
	}
	for k, v := range out.Reads2 {
		m["cont:"+k] = v
	}
	return m
}

type c10Agg struct {
	mu       sync.Mutex
	verdicts map[string]string
	counts   map[string]int
	judged   int
	variants int
}

// c10Nested traces a recovery of the pristine image at src and judges every level-(d+1) image against r0.
func c10Nested(c *fw.Case, work, src string, keys []string, r0 map[string]*string, agg *c10Agg, depth int, lr *rand.Rand, label string) (mutations int) {
	run := filepath.Join(work, fmt.Sprintf("run-d%d", depth))
	_ = os.RemoveAll(run)
	if err := copyDir(src, run); err != nil {
		c.Inconclusive("copy: " + err.Error())
		return 0
	}
	defer os.RemoveAll(run)
	logName := fmt.Sprintf("rec-d%d.log", depth)
	// (the traced run has no continuation: its crash points are those of Open + read-all + Close only)
	targs := []string{"e2recover", "-dir", run, "-keys", strings.Join(keys, ","), "-rbuf", "4096", "-wbuf", "64"}
	if c.Idx%2 == 1 {
		// every other case recovers with the asynchronous-WAL option set (what a recovery does must not depend on it)
		targs = append(targs, "-async")
		c.Obs("recoveries_traced_with_the_async_wal_option", 1)
	}
	logPath, res := e2Trace(work, logName, 120, 300000, targs...)
	defer os.Remove(logPath)
	if res.TimedOut {
		c.Inconclusive("traced recovery watchdog expired")
		return 0
	}
	// fidelity
	rp := strace.NewReplayer(run, "")
	if err := rp.LoadInitialFrom(src); err != nil {
		c.Inconclusive("load initial: " + err.Error())
		return 0
	}
	_ = strace.ReadLog(logPath, func(line string) error { rp.Feed(line); return nil })
	if len(rp.Problems) > 0 {
		c.Inconclusive("replayer did not understand part of a recovery log: " + rp.Problems[0])
		return 0
	}
	if d := rp.CompareWithDisk(run); len(d) > 0 {
		c.Inconclusive("fidelity self-check failed on a recovery log: " + strings.Join(d[:min(3, len(d))], "; "))
		return 0
	}
	mutations = rp.Mutations
	// images
	rp = strace.NewReplayer(run, "")
	_ = rp.LoadInitialFrom(src)
	type job struct {
		dir, after, variant string
		seq                 int
		listing             []string
	}
	jobs := make(chan job, 32)
	var wg sync.WaitGroup
	var deeper []string // pristine copies kept for depth 3
	var dmu sync.Mutex
	for w := 0; w < 5; w++ {
		wg.Add(1)
		go func() {
			defer wg.Done()
			for jb := range jobs {
				keep := false
				pristine := jb.dir + "-p"
				if depth == 2 && c.Thorough() {
					dmu.Lock()
					if len(deeper) < 3 && lr.Intn(6) == 0 {
						keep = true
					}
					dmu.Unlock()
					if keep {
						_ = copyDir(jb.dir, pristine)
					}
				}
				out, r := runRecover(work, jb.dir, keys)
				where := fmt.Sprintf("%s -> level-%d image #%d%s after %s\nfiles: %s", label, depth, jb.seq, jb.variant, jb.after, strings.Join(jb.listing, " "))
				tail := ""
				if jb.variant != "" {
					tail = "/other-listing-order"
				}
				sig, detail := "", ""
				switch {
				case r.TimedOut:
					sig, detail = "INCONCLUSIVE", "recovery watchdog expired"
				case out == nil:
					sig, detail = "recovery-crash/recovering-process-died/"+fw.PanicSite(r.Stderr)+tail, fmt.Sprintf("exit %d on %s\n%s", r.Exit, where, cutS(r.Stderr, 600))
				case out.OpenErr != "":
					sig, detail = "recovery-crash/open-fails/"+errClass(out.OpenErr, jb.dir)+tail, fmt.Sprintf("Open fails on %s\nerror: %s", where, out.OpenErr)
				case out.GetErr != "" || out.CloseErr != "" || out.ContErr != "":
					sig, detail = "recovery-crash/read-or-close-fails/"+errClass(out.GetErr+out.CloseErr+out.ContErr, jb.dir)+tail, fmt.Sprintf("%s %s %s on %s", out.GetErr, out.CloseErr, out.ContErr, where)
				default:
					if d := readsEqual(withCont(out), r0, keys); d != "" {
						sig, detail = "recovery-crash/outcome-differs-from-uninterrupted-recovery"+tail, fmt.Sprintf("%s on %s", d, where)
					}
				}
				_ = os.RemoveAll(jb.dir)
				agg.mu.Lock()
				agg.judged++
				if jb.variant != "" {
					agg.variants++
				}
				if sig == "INCONCLUSIVE" {
					c.Inconclusive(detail)
				} else if sig != "" {
					if _, ok := agg.verdicts[sig]; !ok {
						agg.verdicts[sig] = detail
					}
					agg.counts[sig]++
					if keep {
						_ = os.RemoveAll(pristine)
						keep = false
					}
				}
				agg.mu.Unlock()
				if keep {
					dmu.Lock()
					deeper = append(deeper, pristine)
					dmu.Unlock()
				}
			}
		}()
	}
	seen := map[string]bool{}
	imgNo := 0
	emit := func(ev strace.Event, variant string, extra map[string][]byte) {
		h := rp.Hash()
		var ek []string
		for k := range extra {
			ek = append(ek, k)
		}
		sort.Strings(ek)
		key := h + strings.Join(ek, ",")
		if seen[key] {
			return
		}
		seen[key] = true
		imgNo++
		d := filepath.Join(work, fmt.Sprintf("l%d-img-%d", depth, imgNo))
		if err := rp.Materialise(d, extra); err != nil {
			c.Inconclusive("materialise: " + err.Error())
			return
		}
		jobs <- job{dir: d, after: ev.Call + ":" + pathPattern(ev.Path), variant: variant, seq: ev.Seq, listing: rp.Listing()}
	}
	_ = strace.ReadLog(logPath, func(line string) error {
		for _, ev := range rp.Feed(line) {
			if ev.Kind != "mutation" {
				continue
			}
			emit(ev, "", nil)
			if ev.Call == "unlink" && len(rp.UnlinkRun) >= 2 {
				run := append([]string{}, rp.UnlinkRun...)
				n := len(run)
				var masks []int
				if n <= 4 {
					for m := 1; m < (1 << n); m++ {
						masks = append(masks, m)
					}
				} else {
					for i := 0; i < 6; i++ {
						masks = append(masks, 1+lr.Intn((1<<n)-1))
					}
				}
				for _, m := range masks {
					extra := map[string][]byte{}
					var names []string
					for i, p := range run {
						if m&(1<<i) != 0 {
							extra[p] = rp.UnlinkSaved[p]
							names = append(names, filepath.Base(p))
						}
					}
					emit(ev, " [listing-order variant: still present "+strings.Join(names, ",")+"]", extra)
				}
			}
		}
		return nil
	})
	close(jobs)
	wg.Wait()
	for _, p := range deeper {
		c.Obs("level3_roots", 1)
		c10Nested(c, work, p, keys, r0, agg, depth+1, lr, label+fmt.Sprintf(" -> level-%d", depth))
		_ = os.RemoveAll(p)
	}
	return mutations
}

func runC10(c *fw.Case) {
	work := realDir(c.Dir) // (the traced process sees real paths: a case directory reached through a link is resolved once)
	dbdir := filepath.Join(work, "db")
	_ = os.MkdirAll(dbdir, 0755)
	ctl := filepath.Join(work, "ctl")
	seed := fw.CaseSeed("C10-session", c.Seed, c.Idx)
	c.HashAdd("c10", seed)
	lr := rand.New(rand.NewSource(seed ^ 0x10))
	logPath, res := e2Trace(work, "trace.log", 240, 300000, "e2session", "-dir", dbdir, "-ctl", ctl, "-mode", "sync", "-seed", fmt.Sprint(seed), "-keys", "8")
	if res.TimedOut {
		c.Inconclusive("traced session watchdog expired")
		return
	}
	var keys []string
	for i := 0; i < 8; i++ {
		keys = append(keys, hex.EncodeToString([]byte(fmt.Sprintf("k%d", i))))
	}
	// pass 1: list distinct level-1 candidates per phase
	type cand struct {
		seq   int
		phase string
		wal   bool
		comp  bool
	}
	rp := strace.NewReplayer(dbdir, ctl)
	st := newE2State()
	seen := map[string]bool{}
	var cands []cand
	_ = strace.ReadLog(logPath, func(line string) error {
		for _, ev := range rp.Feed(line) {
			switch ev.Kind {
			case "marker":
				st.marker(ev.Marker)
			case "mutation":
				h := rp.Hash()
				if seen[h] {
					continue
				}
				seen[h] = true
				walData, comp := false, false
				for _, l := range rp.Listing() {
					f := strings.Fields(l)
					if strings.HasPrefix(f[0], "wal/") && len(f) > 1 && f[1] != "(8)" && f[1] != "(0)" {
						walData = true
					}
					if strings.Contains(f[0], "compaction_successful") && strings.HasPrefix(f[0], "sstable_compaction") {
						comp = true
					}
				}
				cands = append(cands, cand{ev.Seq, st.phase(), walData, comp})
			}
		}
		return nil
	})
	if len(rp.Problems) > 0 {
		c.Inconclusive("replayer did not understand part of the log: " + rp.Problems[0])
		return
	}
	if d := rp.CompareWithDisk(dbdir); len(d) > 0 {
		c.Inconclusive("fidelity self-check failed: " + d[0])
		return
	}
	budget := 24
	if c.Thorough() {
		budget = 60
	}
	chosen := map[int]bool{}
	if len(cands) > 0 {
		chosen[cands[len(cands)-1].seq] = true // the final image
	}
	// prefer images with a pending (flagged) compaction, then bucket by phase
	var withComp []cand
	buckets := map[string][]cand{}
	for _, cd := range cands {
		if cd.comp {
			withComp = append(withComp, cd)
		}
		b := strings.Split(cd.phase, "+")[0]
		buckets[b] = append(buckets[b], cd)
	}
	for i := 0; i < 4 && len(withComp) > 0; i++ {
		chosen[withComp[lr.Intn(len(withComp))].seq] = true
	}
	var bnames []string
	for b := range buckets {
		bnames = append(bnames, b)
	}
	sort.Strings(bnames)
	for len(chosen) < budget && len(bnames) > 0 {
		progressed := false
		for _, b := range bnames {
			l := buckets[b]
			if len(l) == 0 {
				continue
			}
			cd := l[lr.Intn(len(l))]
			if !chosen[cd.seq] {
				chosen[cd.seq] = true
				progressed = true
			}
			if len(chosen) >= budget {
				break
			}
		}
		if !progressed {
			break
		}
	}
	// pass 2: materialise the chosen level-1 images
	rp = strace.NewReplayer(dbdir, ctl)
	st = newE2State()
	type l1 struct {
		dir, phase, after string
		seq               int
		wal, comp         bool
	}
	var l1s []l1
	info := map[int]cand{}
	for _, cd := range cands {
		info[cd.seq] = cd
	}
	_ = strace.ReadLog(logPath, func(line string) error {
		for _, ev := range rp.Feed(line) {
			switch ev.Kind {
			case "marker":
				st.marker(ev.Marker)
			case "mutation":
				if chosen[ev.Seq] {
					d := filepath.Join(work, fmt.Sprintf("l1-%d", ev.Seq))
					if err := rp.Materialise(d, nil); err == nil {
						l1s = append(l1s, l1{d, st.phase(), ev.Call + ":" + pathPattern(ev.Path), ev.Seq, info[ev.Seq].wal, info[ev.Seq].comp})
					}
					delete(chosen, ev.Seq)
				}
			}
		}
		return nil
	})
	_ = os.Remove(logPath)
	agg := &c10Agg{verdicts: map[string]string{}, counts: map[string]int{}}
	nt := 0
	for _, im := range l1s {
		c.Obs("level1_images", 1)
		if im.wal {
			c.Obs("level1_with_wal_replay", 1)
		}
		if im.comp {
			c.Obs("level1_with_pending_compaction", 1)
		}
		// R0: uninterrupted recovery on a copy
		cp := im.dir + "-r0"
		_ = copyDir(im.dir, cp)
		out, _ := runRecover(work, cp, keys)
		_ = os.RemoveAll(cp)
		if out == nil || out.OpenErr != "" || out.GetErr != "" || out.ContErr != "" {
			c.Obs("level1_not_recoverable_skipped", 1)
			_ = os.RemoveAll(im.dir)
			continue
		}
		label := fmt.Sprintf("session seed=%d, level-1 image #%d (phase %s, after %s)", seed, im.seq, im.phase, im.after)
		m := c10Nested(c, work, im.dir, keys, withCont(out), agg, 2, lr, label)
		if m >= 5 {
			nt++
		}
		_ = os.RemoveAll(im.dir)
	}
	c.Obs("level2_images_recovered", int64(agg.judged))
	c.Obs("level2_listing_order_variants", int64(agg.variants))
	var sigs []string
	for s := range agg.verdicts {
		sigs = append(sigs, s)
	}
	sort.Strings(sigs)
	for _, s := range sigs {
		c.Violate(s, "[%d images with this signature in this case]\n%s", agg.counts[s], agg.verdicts[s])
	}
	if nt >= 1 {
		c.Nontrivial()
	}
	c.SetUnits(int64(max(agg.judged, 1)), int64(nt))
	c.Sample(map[string]any{"session_seed": seed, "level1_images": len(l1s), "level2_images_recovered": agg.judged, "listing_order_variants": agg.variants})
}
