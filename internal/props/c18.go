package props

import (
	"bytes"
	"encoding/json"
	"errors"
	"flag"
	"fmt"
	"io"
	"math/rand"
	"os"
	"path/filepath"
	"runtime"
	"sort"
	"strings"
	"sync"
	"sync/atomic"

	"github.com/thomasjungblut/go-sstables/recordio"
	"github.com/thomasjungblut/go-sstables/simpledb"
	"github.com/thomasjungblut/go-sstables/skiplist"
	"github.com/thomasjungblut/go-sstables/sstables"

	"verif/internal/fw"
	"verif/internal/gen"
)

// C18 — documented concurrent use is data-race free, panic free and gives single-threaded answers.
// The workloads run in the -race build of the child (sub-command c18work); this case starts it with
// GORACE=halt_on_error=0 log_path=..., counts and de-duplicates the race reports and collects result mismatches.

func init() {
	fw.Register(&fw.Prop{
		ID: "C18",
		Meta: func(tier string) fw.Meta {
			n, caseTimeout := 18, 600
			if tier == "thorough" {
				n, caseTimeout = 360, 1200
			}
			return fw.Meta{N: n, Level: "exploration", Chunk: 1, CaseTimeoutS: caseTimeout, MinNT: 9, Workers: 6,
				Rule:        "one case = one run of a workload in the race-detector build (case index mod 3: 0 = one SimpleDB handle, 8 goroutines of Get/Put/Delete on own and shared keys while size-triggered rotations, the background compactor (50us..1ms ticker) and forced rotations run; 1 = one SSTableReader with the default index loader (one table in three without a bloom filter file), 8..16 goroutines of Get/Contains/ScanRange/ScanStartingAt with every result compared with the precomputed sequential answer; 2 = one memory-mapped RecordIO reader, 8..16 goroutines of ReadNextAt/SeekNext at random offsets compared with the sequential answers), GOMAXPROCS from {2,4,16} by case. Oracles: zero race-detector reports touching go-sstables or the harness, no panic / abnormal exit, zero result mismatches. Every goroutine performs a fixed number of calls (no time boxing). Non-trivial: the run completed >= 1000 concurrent calls; distinct by (workload, seed, GOMAXPROCS) Database workload additions: in every other run callbacks at the named points flush.beforeAddReader and compaction.reflect.dbLocked make flusher and compactor wait a bounded number of spins for each other and leave together with 0..80 increments of skew; every run is closed while the goroutines are still calling - after a third of the calls, or during a tail of Puts that goes on until Close turns them away (only ErrAlreadyClosed is acceptable from then on, Close must return nil); two of the six shared keys hold 40..70 KiB values.",
				MinObs:      map[string]int64{"race_builds_run": 9, "concurrent_calls": 100000, "db_flushes_during_calls": 200, "db_compactions_during_calls": 20},
				Assumptions: []string{"the Go race detector only reports races that happened in the observed execution", "SSTableReader.Scan is not part of the documented concurrent surface (the statement lists Get/Contains/range scans)"},
			}
		},
		Run: runC18,
	})
	fw.RegisterSub("c18work", c18Work)
}

type c18Result struct {
	Calls       int64    `json:"calls"`
	Mismatches  []string `json:"mismatches"`
	Err         string   `json:"err,omitempty"`
	Flushes     int64    `json:"flushes"`
	Compacts    int64    `json:"compactions"`
	Meets       int64    `json:"meets"`
	ClosedEarly int64    `json:"closed_early"`
}

func runC18(c *fw.Case) {
	race := fw.SelfRace()
	if race == "" {
		c.Inconclusive("race build of the child not available (VERIF_CHILD_RACE unset)")
		return
	}
	kind := []string{"db", "sstable", "mmap"}[c.Idx%3]
	procs := []int{4, 2, 16}[(c.Idx/3)%3]
	seed := fw.CaseSeed("C18-work", c.Seed, c.Idx)
	c.HashAdd(kind, procs, seed)
	logBase := filepath.Join(c.Root, "race.log") // GORACE is split at spaces: not below a hostile name
	work := filepath.Join(c.Dir, "w")
	_ = os.MkdirAll(work, 0755)
	env := []string{"GORACE=halt_on_error=0 log_path=" + logBase + " history_size=2", fmt.Sprintf("GOMAXPROCS=%d", procs)}
	dur, watchdog := "1200", 200
	if c.Thorough() {
		// (five times the calls; with the steered schedules some GOMAXPROCS=2 runs take minutes in the race build)
		dur, watchdog = "6000", 900
	}
	res := fw.RunSub(race, watchdog, env, c.Dir, "c18work", "-kind", kind, "-dir", work, "-seed", fmt.Sprint(seed), "-calls", dur)
	c.Obs("race_builds_run", 1)
	if res.TimedOut {
		if site, dl := fw.ClassifyHang(res.Stderr); dl {
			c.Violate("concurrent/"+kind+"/deadlock/"+site, "workload=%s GOMAXPROCS=%d: a call never returned: it has been blocked for minutes and no library goroutine can run any more\n%s", kind, procs, cutS(res.Stderr, 4000))
			return
		}
		c.Inconclusive("race workload watchdog expired")
		return
	}
	// race reports
	logs, _ := filepath.Glob(logBase + "*")
	var all []byte
	for _, l := range logs {
		b, _ := os.ReadFile(l)
		all = append(all, b...)
	}
	reports := parseRaceReports(string(all))
	c.Obs("race_reports_total", int64(len(reports)))
	seen := map[string]bool{}
	for _, rp := range reports {
		if !rp.touchesTarget {
			continue
		}
		if seen[rp.sig] {
			continue
		}
		seen[rp.sig] = true
		c.Violate("race/"+kind+"/"+rp.sig, "workload=%s GOMAXPROCS=%d: %s", kind, procs, cutS(rp.text, 1300))
	}
	var wr c18Result
	lines := bytes.Split(bytes.TrimSpace(res.Stdout), []byte("\n"))
	if len(lines) == 0 || json.Unmarshal(lines[len(lines)-1], &wr) != nil {
		if res.Exit != 0 && res.Exit != 66 {
			c.Violate("concurrent/"+kind+"/abnormal-exit/"+fw.PanicSite(res.Stderr), "workload=%s GOMAXPROCS=%d exit=%d\n%s", kind, procs, res.Exit, cutS(res.Stderr, 1200))
		} else if !c.Violated() {
			c.Inconclusive(fmt.Sprintf("workload produced no result line (exit %d): %s", res.Exit, cutS(res.Stderr, 300)))
		}
		return
	}
	c.Obs("concurrent_calls", wr.Calls)
	c.Obs("db_flushes_during_calls", wr.Flushes)
	c.Obs("db_compactions_during_calls", wr.Compacts)
	c.Obs("db_flush_publish_met_compaction_swap", wr.Meets)
	c.Obs("db_runs_closed_while_calls_in_flight", wr.ClosedEarly)
	if wr.Err != "" {
		c.Violate("concurrent/"+kind+"/error", "workload=%s GOMAXPROCS=%d: %s", kind, procs, wr.Err)
	}
	if len(wr.Mismatches) > 0 {
		c.Violate("concurrent/"+kind+"/result-differs-from-sequential-answer", "workload=%s GOMAXPROCS=%d: %d mismatches, e.g. %s", kind, procs, len(wr.Mismatches), strings.Join(wr.Mismatches[:min(3, len(wr.Mismatches))], " | "))
	}
	if wr.Calls >= 1000 {
		c.Nontrivial()
	}
	c.Sample(map[string]any{"workload": kind, "GOMAXPROCS": procs, "calls": wr.Calls, "race_reports": len(reports), "flushes": wr.Flushes, "compactions": wr.Compacts})
}

type raceReport struct {
	text          string
	sig           string
	touchesTarget bool
}

// parseRaceReports splits race detector output into reports and derives a signature from the innermost
// go-sstables (or harness) function of the two conflicting accesses, line numbers stripped.
func parseRaceReports(s string) []raceReport {
	var out []raceReport
	for _, blk := range strings.Split(s, "==================") {
		if !strings.Contains(blk, "WARNING: DATA RACE") {
			continue
		}
		var accessFuncs []string
		inAccess := false
		found := false
		for _, ln := range strings.Split(blk, "\n") {
			t := strings.TrimSpace(ln)
			if strings.HasPrefix(t, "Write at") || strings.HasPrefix(t, "Read at") || strings.HasPrefix(t, "Previous write at") || strings.HasPrefix(t, "Previous read at") ||
				strings.HasPrefix(t, "Atomic") || strings.HasPrefix(t, "Previous atomic") {
				inAccess, found = true, false
				continue
			}
			if t == "" || strings.HasPrefix(t, "Goroutine ") {
				inAccess = false
				continue
			}
			if inAccess && !found && !strings.HasPrefix(t, "/") && (strings.Contains(t, "go-sstables/") || strings.Contains(t, "verif/internal")) {
				f := t
				if i := strings.LastIndex(f, "("); i > 0 {
					f = f[:i]
				}
				f = strings.TrimPrefix(f, "github.com/thomasjungblut/go-sstables/")
				accessFuncs = append(accessFuncs, f)
				found = true
			}
		}
		sort.Strings(accessFuncs)
		rp := raceReport{text: strings.TrimSpace(blk), sig: strings.Join(accessFuncs, "|")}
		rp.touchesTarget = strings.Contains(blk, "go-sstables/") || strings.Contains(blk, "verif/internal")
		if rp.sig == "" {
			rp.sig = "unattributed"
		}
		out = append(out, rp)
	}
	return out
}

// ---------------- workloads (run inside the -race build)

func c18Work(args []string) int {
	fs := flag.NewFlagSet("c18work", flag.ExitOnError)
	kind := fs.String("kind", "db", "")
	dir := fs.String("dir", "", "")
	seed := fs.Int64("seed", 1, "")
	ms := fs.Int("calls", 2500, "calls per goroutine")
	_ = fs.Parse(args)
	var res c18Result
	switch *kind {
	case "db":
		res = c18DB(*dir, *seed, *ms)
	case "sstable":
		res = c18SST(*dir, *seed, *ms*2)
	case "mmap":
		res = c18MMap(*dir, *seed, *ms*2)
	}
	b, _ := json.Marshal(res)
	fmt.Println(string(b))
	return 0
}

type mism struct {
	mu sync.Mutex
	l  []string
}

func (m *mism) add(f string, a ...any) {
	m.mu.Lock()
	if len(m.l) < 20 {
		m.l = append(m.l, fmt.Sprintf(f, a...))
	}
	m.mu.Unlock()
}

// c18WellFormed checks "g<owner>-<n>-<run of the letter 'a'+n%26>" byte by byte
func c18WellFormed(v []byte, owner int) string {
	parts := strings.SplitN(string(v), "-", 3)
	if len(parts) != 3 || parts[0] != fmt.Sprintf("g%d", owner) {
		return "wrong owner prefix"
	}
	var n int
	if _, err := fmt.Sscan(parts[1], &n); err != nil {
		return "no sequence number"
	}
	if len(parts[2]) < 5 {
		return "payload too short"
	}
	for i := 0; i < len(parts[2]); i++ {
		if parts[2][i] != byte('a'+n%26) {
			return fmt.Sprintf("payload byte %d is %q, the sequence number says %q", i, parts[2][i], byte('a'+n%26))
		}
	}
	return ""
}

func c18DB(dir string, seed int64, perG int) c18Result {
	r := rand.New(rand.NewSource(seed))
	// one run in three keeps everything in ONE write memstore (1 MiB): overwrites then meet readers that still hold an
	// earlier result of the same memstore cell
	memLimit := uint64(40 + r.Intn(200))
	if r.Intn(3) == 0 {
		memLimit = 1 << 20
	}
	opts := dbOptSet{Memstore: memLimit, Threshold: r.Intn(3), MaxSize: gen.Pick(r, uint64(500), 1<<40), Ratio: 0.2, ReadBuf: 4096, WriteBuf: 4096,
		Live: true, IntervalMs: 1, IntervalUs: gen.Pick(r, 50, 300, 1000)}
	db, err := simpledb.NewSimpleDB(dir, opts.Options()...)
	if err == nil {
		err = db.Open()
	}
	if err != nil {
		return c18Result{Err: "open: " + err.Error()}
	}
	// every other run steers the two background roles towards each other: the flusher waits a bounded number of spins
	// before it publishes its table for the compactor to be about to swap its result in (and the other way round), then
	// both go on with a few nanoseconds of skew. Nothing but delays at two named points.
	var meets atomic.Int64
	if r.Intn(2) == 0 {
		var hereF, hereC, sawF, sawC atomic.Int32
		mk := func(here, saw, otherHere, otherSaw *atomic.Int32, bound int, hs int64) func() {
			hr := rand.New(rand.NewSource(hs))
			return func() {
				here.Store(1)
				met := false
				for i := 0; i < bound; i++ {
					if otherHere.Load() == 1 {
						met = true
						break
					}
					if i%1024 == 1023 {
						runtime.Gosched()
					}
				}
				if met {
					// both are on a processor right now: shake hands, then leave together
					saw.Store(1)
					for i := 0; i < 200000 && otherSaw.Load() == 0; i++ {
					}
					if otherSaw.Load() == 1 {
						meets.Add(1)
					}
					var sink atomic.Int64
					for i, n := 0, hr.Intn(80); i < n; i++ {
						sink.Add(1)
					}
				}
				here.Store(0)
				saw.Store(0)
			}
		}
		simpledb.VerifSetPoint("flush.beforeAddReader", mk(&hereF, &sawF, &hereC, &sawC, 20000, r.Int63()))
		simpledb.VerifSetPoint("compaction.reflect.dbLocked", mk(&hereC, &sawC, &hereF, &sawF, 200000, r.Int63()))
		defer simpledb.VerifSetPoint("flush.beforeAddReader", nil)
		defer simpledb.VerifSetPoint("compaction.reflect.dbLocked", nil)
	}
	// every other run ends with Close WHILE the goroutines are still calling: from then on "already closed" is the one
	// acceptable error, and Close itself has to succeed
	closeEarly := r.Intn(2) == 0
	// shared read-only keys; two of them hold values of 40-70 KiB that end up next to each other in one table
	shared := map[string]string{}
	for i := 0; i < 6; i++ {
		k, v := fmt.Sprintf("shared%d", i), fmt.Sprintf("const-%d", i)
		if i < 2 {
			v = strings.Repeat(fmt.Sprintf("big-%d-%d;", i, r.Intn(1000)), 4000+r.Intn(3000))
		}
		if err := db.Put(k, v); err != nil {
			return c18Result{Err: "setup put: " + err.Error()}
		}
		shared[k] = v
	}
	f0, c0 := simpledb.VerifPointCount("flusher.done"), simpledb.VerifPointCount("compaction.reflected")
	var mm mism
	var calls int64
	var cmu sync.Mutex
	var firstErr error
	var wg sync.WaitGroup
	var progress atomic.Int64
	var closing atomic.Bool
	var finished atomic.Int32
	var tail atomic.Int32
	for g := 0; g < 8; g++ {
		wg.Add(1)
		gs := r.Int63()
		go func(g int, gs int64) {
			defer wg.Done()
			defer finished.Add(1)
			gr := rand.New(rand.NewSource(gs))
			own := map[string]string{}
			n := int64(0)
			for i := 0; i < perG; i++ {
				k := fmt.Sprintf("g%d-k%d", g, gr.Intn(4))
				var err error
				switch x := gr.Intn(100); {
				case x < 35:
					// self-describing values: owner, sequence number, then a run of ONE letter determined by the number
					v := fmt.Sprintf("g%d-%d-", g, i) + strings.Repeat(string(rune('a'+i%26)), 5+gr.Intn(300))
					if gr.Intn(2) == 0 {
						err = db.PutBytes([]byte(k), []byte(v))
					} else {
						err = db.Put(k, v)
					}
					if err == nil {
						own[k] = v
					}
				case x < 45:
					err = db.Delete(k)
					if err == nil {
						delete(own, k)
					}
				case x < 80:
					v, found, e := dbGet(db, k)
					err = e
					if e == nil {
						w, ok := own[k]
						if found != ok || v != w {
							mm.add("goroutine %d: Get(%s)=(%q,%v) but its own sequential history says (%q,%v)", g, k, v, found, w, ok)
						}
					}
				case x < 88:
					// a key that ANOTHER goroutine keeps overwriting and deleting: whatever is returned must be one of that
					// goroutine's values, whole (the bytes are inspected after the call has returned, without any lock)
					og := (g + 1 + gr.Intn(7)) % 8
					fk := fmt.Sprintf("g%d-k%d", og, gr.Intn(4))
					vb, e := db.GetBytes([]byte(fk))
					if e != nil && !errors.Is(e, simpledb.ErrNotFound) {
						err = e
					} else if e == nil {
						if why := c18WellFormed(vb, og); why != "" {
							mm.add("goroutine %d: GetBytes(%s) returned a value that goroutine %d never wrote (%s): %q", g, fk, og, why, cutS(string(vb), 80))
						}
					}
				case x < 97:
					sk := fmt.Sprintf("shared%d", gr.Intn(6))
					v, found, e := dbGet(db, sk)
					err = e
					if e == nil && (!found || v != shared[sk]) {
						mm.add("goroutine %d: Get(%s)=(%q,%v), the key is never written during the run", g, sk, v, found)
					}
				default:
					err = db.VerifForceRotate()
				}
				n++
				progress.Add(1)
				if err != nil && closing.Load() && errors.Is(err, simpledb.ErrAlreadyClosed) {
					break
				}
				if err != nil {
					cmu.Lock()
					if firstErr == nil {
						firstErr = err
					}
					cmu.Unlock()
					break
				}
			}
			// runs that were not closed early end with a tail of Puts that goes on until Close — called once every goroutine
			// has reached its tail — turns them away: every database run has a Close with calls in flight
			tail.Add(1)
			for j := 0; !closeEarly; j++ {
				cmu.Lock()
				failed := firstErr != nil
				cmu.Unlock()
				if failed {
					break
				}
				err := db.Put(fmt.Sprintf("g%d-tail", g), fmt.Sprintf("g%d-%d-%s", g, j, strings.Repeat(string(rune('a'+j%26)), 8)))
				n++
				if err != nil {
					if !(closing.Load() && errors.Is(err, simpledb.ErrAlreadyClosed)) {
						cmu.Lock()
						if firstErr == nil {
							firstErr = err
						}
						cmu.Unlock()
					}
					break
				}
			}
			cmu.Lock()
			calls += n
			cmu.Unlock()
		}(g, gs)
	}
	var closeErr error
	closedEarly := false
	if !closeEarly {
		for tail.Load() < 8 {
			runtime.Gosched()
		}
		closing.Store(true)
		closeErr = db.Close()
		closedEarly = true
	}
	if closeEarly {
		// a logical point of the run (a third of the calls), not a point in time
		for progress.Load() < int64(8*perG/3) && finished.Load() < 8 {
			runtime.Gosched()
		}
		closing.Store(true)
		closeErr = db.Close()
		closedEarly = true
	}
	wg.Wait()
	res := c18Result{Calls: calls, Mismatches: mm.l, Meets: meets.Load(),
		Flushes: simpledb.VerifPointCount("flusher.done") - f0, Compacts: simpledb.VerifPointCount("compaction.reflected") - c0}
	if firstErr != nil {
		res.Err = "call failed: " + firstErr.Error()
	}
	res.ClosedEarly = 1 // (every run is closed with calls in flight: a third of the way through, or during the tail of Puts)
	_ = closedEarly
	if closeErr != nil && res.Err == "" {
		res.Err = "close: " + closeErr.Error()
	}
	return res
}

func c18SST(dir string, seed int64, perG int) c18Result {
	r := rand.New(rand.NewSource(seed))
	keys := gen.AscendingKeys(r, 200+r.Intn(800), gen.Pick(r, 0, 1, 3))
	var kvs []kv
	for _, k := range keys {
		var v []byte
		switch r.Intn(8) {
		case 0:
			v = nil
		case 1:
			v = []byte{}
		default:
			v = gen.Payload(r, 300)
		}
		kvs = append(kvs, kv{k, v})
	}
	w, err := sstables.NewSSTableStreamWriter(sstables.WriteBasePath(dir), sstables.WithKeyComparator(skiplist.BytesComparator{}),
		sstables.DataCompressionType(r.Intn(4)), sstables.IndexCompressionType(r.Intn(4)))
	if err == nil {
		err = w.Open()
	}
	if err != nil {
		return c18Result{Err: err.Error()}
	}
	for _, e := range kvs {
		if err := w.WriteNext(e.k, e.v); err != nil {
			return c18Result{Err: err.Error()}
		}
	}
	if err := w.Close(); err != nil {
		return c18Result{Err: err.Error()}
	}
	// one table in three has no bloom filter file (like tables of the legacy format): whatever the reader does instead
	// happens on the first concurrent lookups of a fresh reader
	if r.Intn(3) == 0 {
		_ = os.Remove(filepath.Join(dir, sstables.BloomFileName))
	}
	ropts := []sstables.ReadOption{sstables.ReadBasePath(dir), sstables.ReadWithKeyComparator(skiplist.BytesComparator{})}
	if r.Intn(2) == 0 {
		ropts = append(ropts, sstables.SkipHashCheckOnLoad(), sstables.EnableHashCheckOnReads())
	}
	rd, err := sstables.NewSSTableReader(ropts...)
	if err != nil {
		return c18Result{Err: err.Error()}
	}
	model := map[string]int{}
	for i, e := range kvs {
		model[string(e.k)] = i
	}
	lower := func(p []byte) int {
		return sort.Search(len(kvs), func(i int) bool { return bytes.Compare(kvs[i].k, p) >= 0 })
	}
	var mm mism
	var calls int64
	var cmu sync.Mutex
	var wg sync.WaitGroup
	ng := 8 + r.Intn(9)
	for g := 0; g < ng; g++ {
		wg.Add(1)
		gs := r.Int63()
		go func(g int, gs int64) {
			defer wg.Done()
			gr := rand.New(rand.NewSource(gs))
			n := int64(0)
			for it := 0; it < perG; it++ {
				var p []byte
				if gr.Intn(3) == 0 {
					p = gen.Bytes(gr, 1+gr.Intn(6))
				} else {
					p = kvs[gr.Intn(len(kvs))].k
				}
				idx, ok := model[string(p)]
				switch gr.Intn(10) {
				case 0, 1, 2, 3:
					v, err := rd.Get(p)
					if ok {
						if err != nil || !sameRec(v, kvs[idx].v) {
							mm.add("Get(%x)=(%s,%v) sequential answer %s", p, fw.Hex(v), err, fw.Hex(kvs[idx].v))
						}
					} else if !errors.Is(err, sstables.NotFound) {
						mm.add("Get(absent %x)=(%s,%v)", p, fw.Hex(v), err)
					}
				case 4, 5, 6:
					has, err := rd.Contains(p)
					if err != nil || has != ok {
						mm.add("Contains(%x)=(%v,%v) sequential answer %v", p, has, err, ok)
					}
				case 7:
					it, err := rd.ScanStartingAt(p)
					if err != nil {
						mm.add("ScanStartingAt(%x): %v", p, err)
						break
					}
					a := lower(p)
					lim := 20
					for i := 0; i < lim; i++ {
						k, v, err := it.Next()
						if a+i >= len(kvs) {
							if !errors.Is(err, sstables.Done) {
								mm.add("ScanStartingAt(%x) step %d: (%x,%v) want Done", p, i, k, err)
							}
							break
						}
						if err != nil || !bytes.Equal(k, kvs[a+i].k) || !sameRec(v, kvs[a+i].v) {
							mm.add("ScanStartingAt(%x) step %d: (%x,%s,%v) want (%x,%s)", p, i, k, fw.Hex(v), err, kvs[a+i].k, fw.Hex(kvs[a+i].v))
							break
						}
					}
				default:
					q := kvs[gr.Intn(len(kvs))].k
					lo, hi := p, q
					if bytes.Compare(lo, hi) > 0 {
						lo, hi = hi, lo
					}
					if gr.Intn(4) == 0 {
						// a range that covers the whole table (from at/below its first key to at/above its last one)
						lo, hi = kvs[0].k, kvs[len(kvs)-1].k
						if gr.Intn(2) == 0 {
							lo, hi = []byte{}, []byte{0xff, 0xff, 0xff, 0xff, 0xff, 0xff, 0xff, 0xff, 0xff}
						}
					}
					it, err := rd.ScanRange(lo, hi)
					if err != nil {
						mm.add("ScanRange(%x,%x): %v", lo, hi, err)
						break
					}
					a := lower(lo)
					b := sort.Search(len(kvs), func(i int) bool { return bytes.Compare(kvs[i].k, hi) > 0 })
					for i := a; i <= b && i-a < 30; i++ {
						k, v, err := it.Next()
						if i == b {
							if !errors.Is(err, sstables.Done) {
								mm.add("ScanRange(%x,%x) returned more than %d entries: (%x,%v)", lo, hi, b-a, k, err)
							}
							break
						}
						if err != nil || !bytes.Equal(k, kvs[i].k) || !sameRec(v, kvs[i].v) {
							mm.add("ScanRange(%x,%x) entry %d: (%x,%s,%v) want (%x,%s)", lo, hi, i-a, k, fw.Hex(v), err, kvs[i].k, fw.Hex(kvs[i].v))
							break
						}
					}
				}
				n++
			}
			cmu.Lock()
			calls += n
			cmu.Unlock()
		}(g, gs)
	}
	wg.Wait()
	res := c18Result{Calls: calls, Mismatches: mm.l}
	if err := rd.Close(); err != nil {
		res.Err = "close: " + err.Error()
	}
	return res
}

func c18MMap(dir string, seed int64, perG int) c18Result {
	r := rand.New(rand.NewSource(seed))
	comp := r.Intn(4)
	var recs [][]byte
	n := 100 + r.Intn(600)
	for i := 0; i < n; i++ {
		switch r.Intn(10) {
		case 0:
			recs = append(recs, nil)
		case 1:
			recs = append(recs, []byte{})
		case 2:
			// records spanning several 4 KiB windows of the seek scan (incompressible, so also on disk)
			recs = append(recs, gen.Bytes(r, 5000+r.Intn(20000)))
		default:
			recs = append(recs, gen.Payload(r, 400))
		}
	}
	path := filepath.Join(dir, "f.rio")
	offs, err := writeRio(path, comp, 4096, recs)
	if err != nil {
		return c18Result{Err: err.Error()}
	}
	mr, err := recordio.NewMemoryMappedReaderWithPath(path)
	if err == nil {
		err = mr.Open()
	}
	if err != nil {
		return c18Result{Err: err.Error()}
	}
	size := mr.Size()
	// sequential answers for SeekNext at every offset are derived from the offsets: first record start >= o
	next := func(o uint64) int { return sort.Search(len(offs), func(i int) bool { return offs[i] >= o }) }
	var mm mism
	var calls int64
	var cmu sync.Mutex
	var wg sync.WaitGroup
	ng := 8 + r.Intn(9)
	for g := 0; g < ng; g++ {
		wg.Add(1)
		gs := r.Int63()
		go func(gs int64) {
			defer wg.Done()
			gr := rand.New(rand.NewSource(gs))
			c := int64(0)
			for it := 0; it < perG; it++ {
				if gr.Intn(2) == 0 {
					i := gr.Intn(len(offs))
					got, err := mr.ReadNextAt(offs[i])
					if err != nil || !sameRec(got, recs[i]) {
						mm.add("ReadNextAt(record %d)=(%s,%v) sequential answer %s", i, fw.Hex(got), err, fw.Hex(recs[i]))
					}
				} else {
					o := uint64(gr.Int63n(int64(size) + 1))
					off, got, err := mr.SeekNext(o)
					i := next(o)
					if i >= len(offs) {
						if !errors.Is(err, io.EOF) {
							mm.add("SeekNext(%d)=(%d,%v) sequential answer EOF", o, off, err)
						}
					} else if err != nil || off != offs[i] || !sameRec(got, recs[i]) {
						mm.add("SeekNext(%d)=(%d,%s,%v) sequential answer (%d,%s)", o, off, fw.Hex(got), err, offs[i], fw.Hex(recs[i]))
					}
				}
				c++
			}
			cmu.Lock()
			calls += c
			cmu.Unlock()
		}(gs)
	}
	wg.Wait()
	res := c18Result{Calls: calls, Mismatches: mm.l}
	if err := mr.Close(); err != nil {
		res.Err = "close: " + err.Error()
	}
	return res
}
