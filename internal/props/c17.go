package props

import (
	"errors"
	"fmt"
	"os"
	"path/filepath"
	"strings"
	"time"

	"github.com/thomasjungblut/go-sstables/simpledb"

	"verif/internal/fw"
	"verif/internal/gen"
)

// C17 — a SimpleDB call that returns an error has no effect; string and byte APIs agree.
// In-process part: differential pair of databases (string API / byte API) + reference map, observed directly,
// after rotation+flush and after a clean reopen. The crash-image observation point lives in the E2 engine (c17crash).

func init() {
	fw.Register(&fw.Prop{
		ID: "C17",
		Meta: func(tier string) fw.Meta {
			n := 416
			if tier == "thorough" {
				n = 10000
			}
			return fw.Meta{N: n, Level: "exploration", Chunk: 5, CaseTimeoutS: 240, MinNT: 80,
				Rule:        "one case = one seeded program of 20..120 calls applied to two fresh databases, one through Put/Get/Delete (strings) and one through PutBytes/GetBytes/DeleteBytes, with keys and values drawn from {nil, empty, 1 byte, non-UTF-8, ordinary, 64 KiB}; one handle in three receives Put/Get/Delete/Close calls BEFORE its Open (all must be refused, the handle must then open and work normally); per call the accept/reject decision and result of both flavours must agree and Put with an empty key or value must answer ErrEmptyKeyValue; a reference map that ignores every call that returned an error is compared with a read of all keys (through both flavours) directly after each call, before/after forced rotation+flush, and before/after clean Close+re-Open (reads must not change merely because of a flush or restart). Every 52nd case instead runs a byte-API program (with rejected calls and, in half of its sessions, one Put whose WAL write fails half way through RLIMIT_FSIZE) in a traced sub-process and recovers crash images taken after rejected calls (see C02 engine). Non-trivial: >=1 rejected call, >=1 accepted call, >=1 flush and >=1 reopen; distinct by program hash A Delete of a non-empty key that is refused (outside sessions whose log cannot append) is a violation: Put accepts every non-empty key.",
				MinObs:      map[string]int64{"calls_compared": 10000, "rejected_calls": 1500, "nil_arguments": 300, "transitions_flush": 300, "transitions_reopen": 300, "reads_compared": 50000, "calls_rejected_by_failing_wal": 100, "distinct_images_recovered": 800, "rejected_calls_in_traced_sessions": 50, "handles_called_before_open": 100, "puts_failed_by_a_wal_write_fault_in_traced_sessions": 2},
				Assumptions: []string{"nil byte slices correspond to empty strings", "Delete/DeleteBytes with an empty key is not documented as rejected; only agreement between the flavours and absence of visible effect is required"},
			}
		},
		Run: runC17,
	})
}

func c17ErrClass(err error) string {
	switch {
	case err == nil:
		return "nil"
	case errors.Is(err, simpledb.ErrNotFound):
		return "ErrNotFound"
	case errors.Is(err, simpledb.ErrEmptyKeyValue):
		return "ErrEmptyKeyValue"
	}
	// other errors carry file paths (which differ between the two databases): classify by the innermost message
	m := err.Error()
	if i := strings.LastIndex(m, ": "); i >= 0 {
		m = m[i+2:]
	}
	return "other: " + m
}

type c17val struct {
	b     []byte
	isNil bool
}

func c17Draw(c *fw.Case, pool [][]byte) c17val {
	r := c.R
	switch r.Intn(12) {
	case 0:
		return c17val{nil, true}
	case 1:
		return c17val{[]byte{}, false}
	default:
		return c17val{pool[r.Intn(len(pool))], false}
	}
}

func showB(v c17val) string {
	if v.isNil {
		return "nil"
	}
	if len(v.b) > 12 {
		return fmt.Sprintf("%x..(%d)", v.b[:12], len(v.b))
	}
	return fmt.Sprintf("%x", v.b)
}

func runC17(c *fw.Case) {
	if c.Idx%52 == 51 {
		// crash-image observation point: a traced byte-API session that mixes rejected and accepted calls; every
		// crash image must recover to the reference map that ignores the rejected calls (and the empty key stays unreadable)
		seed := fw.CaseSeed("C17-crash-session", c.Seed, c.Idx)
		c.HashAdd("c17-crash", seed)
		sum := e2RunSession(c, e2Config{mode: "c17", seed: seed, nkeys: 8})
		rej, faults := 0, 0
		for _, op := range sum.opsList {
			if op.Kind == "badput" {
				rej++
			}
			if op.Kind == "faultput" && op.Err {
				faults++
			}
		}
		c.Obs("rejected_calls_in_traced_sessions", int64(rej))
		c.Obs("puts_failed_by_a_wal_write_fault_in_traced_sessions", int64(faults))
		e2Report(c, sum, fmt.Sprintf("byte-API session with rejected calls seed=%d", seed))
		return
	}
	r := c.R
	big := gen.Bytes(r, 65536)
	keyPool := [][]byte{{'a'}, {0xff, 0xfe, 0x80}, []byte("key-1"), []byte("key-2"), {0x00}, append([]byte("bigkey"), big[:60000]...), {0x91, 0x8d, 0x4c}}
	valPool := [][]byte{{'v'}, {0xc3, 0x28, 0xff}, []byte("value-one"), []byte("value-two"), {0x00}, big, {0x91, 0x8d, 0x4c, 0x00}}
	// a fifth of the cases has sessions whose WAL is opened with direct I/O but without the asynchronous option:
	// there every synchronous append fails (documented limitation), i.e. every mutation returns an error
	walFailCase := r.Intn(5) == 0
	base := c.Dir
	if walFailCase {
		base = c.DiskDir() // O_DIRECT needs a real file system
		c.Obs("cases_with_failing_wal_sessions", 1)
	}
	dirS := filepath.Join(base, "s")
	dirB := filepath.Join(base, "b")
	_ = os.MkdirAll(dirS, 0755)
	_ = os.MkdirAll(dirB, 0755)
	opts := dbOptSet{Memstore: gen.Pick(r, uint64(1<<30), 256), Threshold: 1, MaxSize: 1 << 40, Ratio: 0.2, ReadBuf: 4096, WriteBuf: gen.Pick(r, uint64(64), 4096)}
	var dbS, dbB *simpledb.DB
	rejected := 0
	var trace []string
	note := func(f string, a ...any) {
		trace = append(trace, fmt.Sprintf(f, a...))
		if len(trace) > 25 {
			trace = trace[1:]
		}
	}
	ctx := func() string { return "last calls: " + strings.Join(trace, "; ") }
	// calls on a handle that is not open yet are refused — and, like every refused call, must leave no trace: the
	// handle must open and work normally afterwards (one handle in three receives such calls before its Open)
	refusedBeforeOpen := func(db *simpledb.DB, flavour string) bool {
		if r.Intn(3) != 0 {
			return true
		}
		c.Obs("handles_called_before_open", 1)
		errs := map[string]error{"Close": nil, "Put": nil, "Get": nil, "Delete": nil}
		for _, call := range []string{"Put", "Close", "Get", "Delete", "Close"}[r.Intn(2):] {
			switch call {
			case "Close":
				errs[call] = db.Close()
			case "Put":
				errs[call] = db.Put("early", "value")
			case "Get":
				_, errs[call] = db.Get("early")
			case "Delete":
				errs[call] = db.Delete("early")
			}
			if errs[call] == nil {
				c.Violate("api/lifecycle/call-before-open-accepted/"+call, "%s on a %s handle that was never opened returned nil\n%s", call, flavour, ctx())
				return false
			}
			rejected++
		}
		note("refused calls before Open (%s db)", flavour)
		return true
	}
	openBoth := func() bool {
		var err error
		dbS, err = simpledb.NewSimpleDB(dirS, opts.Options()...)
		if err == nil && !refusedBeforeOpen(dbS, "string") {
			return false
		}
		if err == nil {
			err = dbS.Open()
		}
		if err != nil {
			c.Violate("api/open-error/string-db", "Open failed: %v\n%s", err, ctx())
			return false
		}
		dbB, err = simpledb.NewSimpleDB(dirB, opts.Options()...)
		if err == nil && !refusedBeforeOpen(dbB, "byte") {
			return false
		}
		if err == nil {
			err = dbB.Open()
		}
		if err != nil {
			c.Violate("api/open-error/byte-db", "Open failed: %v\n%s", err, ctx())
			return false
		}
		return true
	}
	if !openBoth() {
		return
	}
	model := map[string]string{}
	allKeys := append([][]byte{{}}, keyPool...)
	// readAll returns key -> "value" / "<nf>" / "<err ...>" through both flavours and insists they agree
	readAll := func(when string) (map[string]string, bool) {
		out := map[string]string{}
		for _, k := range allKeys {
			vs, es := dbS.Get(string(k))
			vb, eb := dbB.GetBytes(k)
			c.Obs("reads_compared", 2)
			if c17ErrClass(es) != c17ErrClass(eb) || (es == nil && vs != string(vb)) {
				c.Violate("api/flavours-disagree/get/"+when, "Get(%x) = (%s, %s) but GetBytes = (%s, %s)\n%s", cutB(k), short(vs), c17ErrClass(es), short(string(vb)), c17ErrClass(eb), ctx())
				return nil, false
			}
			switch {
			case es == nil:
				out[string(k)] = "=" + vs
			case errors.Is(es, simpledb.ErrNotFound):
				out[string(k)] = "<nf>"
			default:
				out[string(k)] = "<err " + es.Error() + ">"
			}
		}
		return out, true
	}
	againstModel := func(got map[string]string, when string) bool {
		for _, k := range allKeys {
			want := "<nf>"
			if v, ok := model[string(k)]; ok {
				want = "=" + v
			}
			if got[string(k)] != want {
				kind := "stale-or-wrong-value"
				if want == "<nf>" {
					kind = "rejected-or-deleted-write-visible"
				} else if got[string(k)] == "<nf>" {
					kind = "accepted-write-missing"
				}
				c.Violate("api/read-differs-from-model/"+when+"/"+kind, "key %x reads %s, the reference map (ignoring rejected calls) says %s\n%s", cutB(k), short(got[string(k)]), short(want), ctx())
				return false
			}
		}
		return true
	}
	unchanged := func(before, after map[string]string, transition string) bool {
		for _, k := range allKeys {
			if before[string(k)] != after[string(k)] {
				c.Violate("api/read-changed-by-"+transition, "key %x read %s before and %s after the %s although no call was made\n%s", cutB(k), short(before[string(k)]), short(after[string(k)]), transition, ctx())
				return false
			}
		}
		return true
	}
	steps := 20 + r.Intn(100)
	accepted, flushes, reopens := 0, 0, 0
	for s := 0; s < steps; s++ {
		op := r.Intn(100)
		k := c17Draw(c, keyPool)
		c.HashAdd(op, k.b, k.isNil)
		switch {
		case op < 45: // put
			v := c17Draw(c, valPool)
			c.HashAdd(v.b, v.isNil)
			if k.isNil || v.isNil {
				c.Obs("nil_arguments", 1)
			}
			note("Put(%s,%s)", showB(k), showB(v))
			es := dbS.Put(string(k.b), string(v.b))
			eb := dbB.PutBytes(k.b, v.b)
			c.Obs("calls_compared", 1)
			wantReject := len(k.b) == 0 || len(v.b) == 0
			if opts.DirectIOWAL && !wantReject {
				// the WAL append fails: the call must return an error and must not have any effect
				c.Obs("calls_rejected_by_failing_wal", 1)
				if es == nil || eb == nil {
					c.Violate("api/failing-wal-append-not-reported", "Put(%s,%s) -> %s / PutBytes -> %s although the WAL cannot append\n%s", showB(k), showB(v), c17ErrClass(es), c17ErrClass(eb), ctx())
					return
				}
				rejected++
				break
			}
			if c17ErrClass(es) != c17ErrClass(eb) {
				c.Violate("api/flavours-disagree/put", "Put(%s,%s) -> %s but PutBytes -> %s\n%s", showB(k), showB(v), c17ErrClass(es), c17ErrClass(eb), ctx())
				return
			}
			if wantReject {
				rejected++
				c.Obs("rejected_calls", 1)
				if !errors.Is(es, simpledb.ErrEmptyKeyValue) {
					c.Violate("api/empty-put-not-rejected-as-documented", "Put(%s,%s) -> %s, documented: ErrEmptyKeyValue\n%s", showB(k), showB(v), c17ErrClass(es), ctx())
					return
				}
			} else {
				if es != nil {
					c.Violate("api/valid-put-rejected", "Put(%s,%s) -> %s\n%s", showB(k), showB(v), c17ErrClass(es), ctx())
					return
				}
				accepted++
				model[string(k.b)] = string(v.b)
			}
		case op < 60: // delete
			note("Delete(%s)", showB(k))
			es := dbS.Delete(string(k.b))
			eb := dbB.DeleteBytes(k.b)
			c.Obs("calls_compared", 1)
			if c17ErrClass(es) != c17ErrClass(eb) {
				c.Violate("api/flavours-disagree/delete", "Delete(%s) -> %s but DeleteBytes -> %s\n%s", showB(k), c17ErrClass(es), c17ErrClass(eb), ctx())
				return
			}
			if opts.DirectIOWAL && (es == nil || eb == nil) {
				c.Violate("api/failing-wal-append-not-reported", "Delete(%s) -> %s / %s although the WAL cannot append\n%s", showB(k), c17ErrClass(es), c17ErrClass(eb), ctx())
				return
			}
			if es != nil && len(k.b) > 0 && !opts.DirectIOWAL {
				// Put accepts every non-empty key: a Delete that refuses one of them does not "accept and reject the same keys"
				c.Violate("api/valid-delete-rejected", "Delete(%s) -> %s\n%s", showB(k), c17ErrClass(es), ctx())
				return
			}
			if es == nil {
				delete(model, string(k.b))
			} else {
				rejected++
				c.Obs("rejected_calls", 1)
			}
		case op < 75: // get (both flavours, also with nil)
			vs, es := dbS.Get(string(k.b))
			vb, eb := dbB.GetBytes(k.b)
			c.Obs("calls_compared", 1)
			if c17ErrClass(es) != c17ErrClass(eb) || (es == nil && vs != string(vb)) {
				c.Violate("api/flavours-disagree/get/direct", "Get(%s) = (%s,%s) but GetBytes = (%s,%s)\n%s", showB(k), short(vs), c17ErrClass(es), short(string(vb)), c17ErrClass(eb), ctx())
				return
			}
			continue
		case op < 88: // rotation + flush: reads must not change
			before, ok := readAll("before-flush")
			if !ok {
				return
			}
			note("Rotate+Flush")
			if err := dbS.VerifForceRotate(); err != nil {
				c.Violate("api/rotate-error", "%v\n%s", err, ctx())
				return
			}
			if err := dbB.VerifForceRotate(); err != nil {
				c.Violate("api/rotate-error", "%v\n%s", err, ctx())
				return
			}
			if !waitFlushIdle(60 * time.Second) {
				c.Inconclusive("flusher did not become idle")
				return
			}
			flushes++
			c.Obs("transitions_flush", 1)
			after, ok := readAll("after-flush")
			if !ok || !unchanged(before, after, "flush") {
				return
			}
			// every third flush transition continues with a compaction cycle DURING which the handles receive a second
			// Open(): it must be refused, and — like every refused call — change nothing (the cycle completes, reads stay)
			if flushes%3 == 0 {
				var openErrs []error
				refusedOpen := func() { openErrs = append(openErrs, dbS.Open(), dbB.Open()) }
				// (before the merge starts, and when its output is complete and flagged but not yet installed)
				simpledb.VerifSetPoint("compaction.selected", refusedOpen)
				simpledb.VerifSetPoint("compaction.flagWritten", refusedOpen)
				_, e1 := dbS.VerifCompactOnce()
				_, e2 := dbB.VerifCompactOnce()
				simpledb.VerifSetPoint("compaction.selected", nil)
				simpledb.VerifSetPoint("compaction.flagWritten", nil)
				note("compaction cycle with a refused Open() inside (%d Open calls)", len(openErrs))
				for _, oe := range openErrs {
					if oe == nil {
						c.Violate("api/lifecycle/second-open-accepted", "Open() on an open handle returned nil\n%s", ctx())
						return
					}
					rejected++
				}
				c.Obs("refused_open_calls_during_a_compaction", int64(len(openErrs)))
				if e1 != nil || e2 != nil {
					c.Violate("api/lifecycle/refused-open-disturbed-a-compaction", "a compaction cycle during which Open() was refused failed: %v / %v\n%s", e1, e2, ctx())
					return
				}
				after2, ok := readAll("after-refused-open")
				if !ok || !unchanged(before, after2, "refused Open during a compaction") {
					return
				}
			}
			continue
		default: // clean restart: reads must not change
			before, ok := readAll("before-reopen")
			if !ok {
				return
			}
			note("Close+Open")
			if err := dbS.Close(); err != nil {
				c.Violate("api/close-error", "%v\n%s", err, ctx())
				return
			}
			if err := dbB.Close(); err != nil {
				c.Violate("api/close-error", "%v\n%s", err, ctx())
				return
			}
			opts.DirectIOWAL = walFailCase && r.Intn(2) == 0
			if opts.DirectIOWAL {
				note("[sessions with failing WAL appends]")
			}
			if !openBoth() {
				return
			}
			reopens++
			c.Obs("transitions_reopen", 1)
			after, ok := readAll("after-reopen")
			if !ok || !unchanged(before, after, "restart") {
				return
			}
			continue
		}
		got, ok := readAll("direct")
		if !ok || !againstModel(got, "directly") {
			return
		}
	}
	got, ok := readAll("end")
	if ok {
		againstModel(got, "at-end")
	}
	e1, e2 := dbS.Close(), dbB.Close()
	if (e1 != nil || e2 != nil) && !c.Violated() {
		c.Violate("api/close-error", "%v / %v\n%s", e1, e2, ctx())
	}
	if !c.Violated() {
		// one more clean restart
		opts.DirectIOWAL = false
		if openBoth() {
			got, ok := readAll("final-reopen")
			if ok {
				againstModel(got, "after-final-reopen")
			}
			_ = dbS.Close()
			_ = dbB.Close()
		}
	}
	if rejected >= 1 && accepted >= 1 && flushes >= 1 && reopens >= 1 {
		c.Nontrivial()
	}
	if c.Idx%50 == 0 {
		c.Sample(map[string]any{"calls": steps, "rejected": rejected, "accepted": accepted, "flushes": flushes, "reopens": reopens, "last_calls": trace[max(0, len(trace)-8):]})
	}
}

func cutB(b []byte) []byte {
	if len(b) > 16 {
		return b[:16]
	}
	return b
}
