package props

import (
	"bytes"
	"encoding/hex"
	"encoding/json"
	"errors"
	"flag"
	"fmt"
	"math/rand"
	"os"
	"os/signal"
	"path/filepath"
	"runtime"
	"sort"
	"strings"
	"sync"
	"syscall"
	"time"

	"github.com/thomasjungblut/go-sstables/pq"
	"github.com/thomasjungblut/go-sstables/recordio"
	rProto "github.com/thomasjungblut/go-sstables/recordio/proto"
	"github.com/thomasjungblut/go-sstables/simpledb"
	"github.com/thomasjungblut/go-sstables/skiplist"
	"github.com/thomasjungblut/go-sstables/sstables"
	"google.golang.org/protobuf/proto"

	"verif/internal/fw"
	"verif/internal/gen"
	"verif/internal/rio"
)

// C11 — I/O failures during merge, compaction and flush are reported, never absorbed.
// (a) cases [0,NA): the real merger over in-memory inputs with a fault at every record position of every
//     input iterator (3 variants) and at every WriteNext of the output; double faults sampled.
// (b) cases [NA,N): flush / compaction inside a real SimpleDB in a sub-process, faults through the
//     tag-guarded hooks (failing writers / input iterators) and at kernel level through RLIMIT_FSIZE.

func c11Sizes(tier string) (na, nb int) {
	if tier == "thorough" {
		return 8000, 24000
	}
	return 600, 1200
}

func init() {
	fw.Register(&fw.Prop{
		ID: "C11",
		Meta: func(tier string) fw.Meta {
			na, nb := c11Sizes(tier)
			return fw.Meta{N: na + nb, Level: "fault_enumeration", Chunk: 8, CaseTimeoutS: 240, MinNT: 60,
				Rule:        "(a) one case = one seeded input set (1..4 ascending inputs, overlapping for the compacting merges, disjoint for Merge) run through Merge / MergeCompact with both reductions / MergeCompactIterator: single fault at EVERY Next position of EVERY input (variants: fail-then-continue, fail-repeatedly, fail-then-end, and the first and third with a failed call that has consumed its record and reports a wrapped temporary system error) and at EVERY WriteNext position, plus sampled double faults; every 6th case instead merges REAL tables (reader.Scan, no validation on load) one of whose data files ends early at every record boundary and inside records; oracle: error returned, or output identical to the fault-free output. (b) one case = one SimpleDB scenario in a sub-process (flush of a memstore, one compaction cycle over 2..4 tables, or the flush that Open performs for the replayed WAL of a hand-placed kill image) with one fault: k-th data append / k-th index append of the stream writer, the index writer's final flush in Close, p-th record of an input iterator, one bit of a stored payload of an input table flipped on disk after the table was loaded, RLIMIT_FSIZE = L bytes (kernel-level EFBIG at the first write crossing L), or ONE file of the flushed table (metadata, index, data, bloom filter) on a full device (symlink to /dev/full planted in the directory the flush will use: ENOSPC on every write to it); and compactions run by the REAL background compactor whose input fails while Close is already waiting for it (the failing iterator holds its error until the goroutine dump shows Close waiting for the compactor's done signal, its stop request sent); oracle: process stopped or error returned, never success with reads differing from the model; after a reported error the same process and a fresh process must still read the model. evaluations = fault runs; non-trivial = fault actually reached; distinct by (input hash, fault) Half of the hook/size-limit compaction scenarios make the oldest table larger than the size limit, so the cycle leaves it out and keeps tombstones; every second flush scenario places the same faults in the flush that Close performs (verdict once the flusher goroutine is gone).",
				MinObs:      map[string]int64{"faults_reached_in_cycles_that_leave_the_oldest_table_out": 20, "faults_placed_in_the_flush_that_close_performs": 50, "merger_fault_runs": 3000, "merger_faults_reached": 2000, "merger_errors_reported": 1000, "db_fault_scenarios": 100, "db_fault_reached": 40, "db_process_stopped_or_error": 30, "rlimit_faults_reached": 5, "full_device_faults_reached": 5, "live_compactor_failures_while_close_waits": 5, "damaged_input_records_met_by_a_compaction": 5},
				Assumptions: []string{"hook-level failures are clean failures; RLIMIT_FSIZE failures are real EFBIG results of write(2) through the real buffered writers", "a flush failure ends the process (log.Panicf) — the recoverability of what it leaves behind belongs to C02"},
			}
		},
		Run: runC11,
	})
	fw.RegisterSub("c11sub", c11Sub)
}

// ---------- (a) merger

type c11Iter struct {
	items   []kv
	pos     int
	failAt  int // Next-call index at which to fail (-1 never)
	variant int // 0 fail once then continue, 1 fail repeatedly (20x) then Done, 2 fail then Done, 3/4 = 0/2 with the failed call CONSUMING its record and a "temporary" system error (what a table scan does when its data read times out)
	calls   int
	fails   int
	reached *bool
}

var errC11 = errors.New("verif: injected iterator failure")

// errC11Temporary is a failure of the kind a reader reports for a read that timed out: wrapped, and Temporary() is true
var errC11Temporary = fmt.Errorf("verif: error while reading next record: %w", &os.PathError{Op: "read", Path: "data.rio", Err: syscall.ETIMEDOUT})

func (it *c11Iter) Next() ([]byte, []byte, error) {
	call := it.calls
	it.calls++
	if it.failAt >= 0 && call >= it.failAt {
		switch it.variant {
		case 0:
			if call == it.failAt {
				*it.reached = true
				return nil, nil, errC11
			}
		case 1:
			if it.fails < 20 {
				it.fails++
				*it.reached = true
				return nil, nil, errC11
			}
			return nil, nil, sstables.Done
		case 2:
			if call == it.failAt {
				*it.reached = true
				return nil, nil, errC11
			}
			return nil, nil, sstables.Done
		case 3, 4:
			if call == it.failAt {
				*it.reached = true
				if it.pos < len(it.items) {
					it.pos++ // the index had already advanced when the data read failed
				}
				return nil, nil, errC11Temporary
			}
			if it.variant == 4 {
				return nil, nil, sstables.Done
			}
		}
	}
	if it.pos >= len(it.items) {
		return nil, nil, sstables.Done
	}
	e := it.items[it.pos]
	it.pos++
	return e.k, e.v, nil
}

type c11Writer struct {
	out     []kv
	failAt  map[int]bool
	calls   int
	reached *bool
}

func (w *c11Writer) Open() error  { return nil }
func (w *c11Writer) Close() error { return nil }
func (w *c11Writer) WriteNext(k, v []byte) error {
	call := w.calls
	w.calls++
	if w.failAt[call] {
		*w.reached = true
		return errors.New("verif: injected writer failure")
	}
	w.out = append(w.out, kv{append([]byte{}, k...), v})
	return nil
}

type c11Fault struct {
	input, pos, variant int // input -1: writer fault at pos
}

func c11RunMerge(op int, inputs [][]kv, faults []c11Fault) (out []kv, err error, reached bool) {
	var its []sstables.SSTableMergeIteratorContext
	for i, in := range inputs {
		it := &c11Iter{items: in, failAt: -1, reached: &reached}
		for _, f := range faults {
			if f.input == i {
				it.failAt, it.variant = f.pos, f.variant
			}
		}
		its = append(its, sstables.NewMergeIteratorContext(i, it))
	}
	w := &c11Writer{failAt: map[int]bool{}, reached: &reached}
	for _, f := range faults {
		if f.input == -1 {
			w.failAt[f.pos] = true
		}
	}
	m := sstables.NewSSTableMerger(skiplist.BytesComparator{})
	done := make(chan struct{})
	go func() {
		defer close(done)
		defer func() {
			if p := recover(); p != nil {
				err = fmt.Errorf("panic: %v", p)
			}
		}()
		switch op {
		case 0:
			err = m.Merge(its, w)
		case 1:
			err = m.MergeCompact(its, w, sstables.ScanReduceLatestWins)
		case 2:
			err = m.MergeCompact(its, w, sstables.ScanReduceLatestWinsSkipTombstones)
		case 3:
			var it sstables.SSTableIteratorI
			it, err = m.MergeCompactIterator(its, sstables.ScanReduceLatestWins)
			if err != nil {
				return
			}
			for n := 0; n < 100000; n++ {
				k, v, e := it.Next()
				if e != nil {
					if !errors.Is(e, sstables.Done) {
						err = e
					}
					return
				}
				if e := w.WriteNext(k, v); e != nil {
					err = e
					return
				}
			}
			err = errors.New("iterator did not end")
		}
	}()
	select {
	case <-done:
	case <-time.After(20 * time.Second):
		return nil, errors.New("HANG"), reached
	}
	return w.out, err, reached
}

func runC11(c *fw.Case) {
	na, _ := c11Sizes(c.Tier)
	if c.Idx >= na {
		c11DB(c, c.Idx-na)
		return
	}
	if c.Idx%6 == 5 {
		c11RealInputs(c)
		return
	}
	r := c.R
	op := c.Idx % 4
	k := 1 + r.Intn(4)
	universe := gen.AscendingKeys(r, 6+r.Intn(20), gen.Pick(r, 0, 1, 3))
	inputs := make([][]kv, k)
	if op == 0 { // disjoint
		for _, key := range universe {
			i := r.Intn(k)
			inputs[i] = append(inputs[i], kv{key, []byte(fmt.Sprintf("v%x", key))})
		}
	} else {
		for i := range inputs {
			for _, key := range universe {
				if r.Intn(2) == 0 {
					var v []byte
					if r.Intn(5) > 0 {
						v = []byte(fmt.Sprintf("t%d-%x", i, key))
					}
					inputs[i] = append(inputs[i], kv{key, v})
				}
			}
		}
	}
	for i, in := range inputs {
		for _, e := range in {
			c.HashAdd(i, e.k, e.v)
		}
	}
	c.HashAdd(op)
	opName := []string{"Merge", "MergeCompact(latest-wins)", "MergeCompact(skip-tombstones)", "MergeCompactIterator"}[op]
	base, err, _ := c11RunMerge(op, inputs, nil)
	if err != nil {
		c.Violate("merge-fault/fault-free-run-failed", "%s: %v", opName, err)
		return
	}
	units, nt := int64(0), int64(0)
	judge := func(faults []c11Fault, what string) {
		out, err, reached := c11RunMerge(op, inputs, faults)
		units++
		c.Obs("merger_fault_runs", 1)
		if reached {
			nt++
			c.Obs("merger_faults_reached", 1)
		}
		if err != nil {
			if err.Error() == "HANG" {
				// a wall-clock watchdog is not a verdict
				c.Inconclusive(fmt.Sprintf("%s with %s did not return within the harness watchdog", opName, what))
				return
			}
			c.Obs("merger_errors_reported", 1)
			return
		}
		if d := sameKVs(out, base); d != "" {
			kind := "input-iterator"
			if faults[0].input == -1 {
				kind = "output-writer"
			}
			c.Violate("merge-fault/absorbed/"+kind, "%s returned nil although %s; output differs from the fault-free output: %s\n got: %s\nwant: %s", opName, what, d, fmtKVs(out), fmtKVs(base))
		}
	}
	for i, in := range inputs {
		for p := 0; p <= len(in); p++ {
			for v := 0; v < 5; v++ {
				judge([]c11Fault{{i, p, v}}, fmt.Sprintf("input %d failed at Next #%d (variant %d)", i, p, v))
				if c.Violated() {
					break
				}
			}
		}
	}
	for q := 0; q < len(base) && !c.Violated(); q++ {
		judge([]c11Fault{{-1, q, 0}}, fmt.Sprintf("output WriteNext #%d failed", q))
	}
	for d := 0; d < 10 && !c.Violated() && len(base) > 0; d++ {
		i := r.Intn(k)
		judge([]c11Fault{{i, r.Intn(len(inputs[i]) + 1), r.Intn(3)}, {-1, r.Intn(len(base)), 0}}, "a double fault (input + output)")
	}
	if nt > 0 {
		c.Nontrivial()
	}
	c.SetUnits(units, nt)
	if c.Idx%40 == 0 {
		var lens []int
		for _, in := range inputs {
			lens = append(lens, len(in))
		}
		c.Sample(map[string]any{"op": opName, "input_lengths": lens, "fault_runs": units, "fault_free_output": len(base)})
	}
}

// c11RealInputs: the inputs are real tables read through reader.Scan(); the fault is a data file that ends early
// (at every record boundary and inside records) under a reader that does not validate on load. The merge must report
// an error or produce the fault-free output.
func c11RealInputs(c *fw.Case) {
	r := c.R
	nt := 2 + r.Intn(2)
	universe := gen.AscendingKeys(r, 6+r.Intn(14), 0)
	var dirs []string
	for t := 0; t < nt; t++ {
		var kvs []kv
		for _, k := range universe {
			if r.Intn(3) > 0 {
				var v []byte
				if r.Intn(6) > 0 {
					v = []byte(fmt.Sprintf("t%d-%x-%s", t, k, strings.Repeat("q", r.Intn(20))))
				}
				kvs = append(kvs, kv{k, v})
				c.HashAdd(t, k, v)
			}
		}
		d := filepath.Join(c.Dir, fmt.Sprintf("in%d", t))
		if err := c08WriteTable(d, kvs); err != nil {
			c.Violate("harness/write-table", "%v", err)
			return
		}
		dirs = append(dirs, d)
	}
	run := func() ([]kv, error) {
		var its []sstables.SSTableMergeIteratorContext
		var rds []sstables.SSTableReaderI
		defer func() {
			for _, rd := range rds {
				_ = rd.Close()
			}
		}()
		for i, d := range dirs {
			rd, err := sstables.NewSSTableReader(sstables.ReadBasePath(d), sstables.ReadWithKeyComparator(skiplist.BytesComparator{}), sstables.SkipHashCheckOnLoad())
			if err != nil {
				return nil, fmt.Errorf("open: %w", err)
			}
			rds = append(rds, rd)
			sc, err := rd.Scan()
			if err != nil {
				return nil, fmt.Errorf("scan: %w", err)
			}
			its = append(its, sstables.NewMergeIteratorContext(i, sc))
		}
		reached := false
		w := &c11Writer{failAt: map[int]bool{}, reached: &reached}
		err := sstables.NewSSTableMerger(skiplist.BytesComparator{}).MergeCompact(its, w, sstables.ScanReduceLatestWinsSkipTombstones)
		return w.out, err
	}
	base, err := run()
	if err != nil {
		c.Violate("merge-fault/fault-free-run-failed", "real-table inputs: %v", err)
		return
	}
	victim := r.Intn(nt)
	dataPath := filepath.Join(dirs[victim], sstables.DataFileName)
	img, err := os.ReadFile(dataPath)
	if err != nil {
		c.Violate("harness/read", "%v", err)
		return
	}
	pf, err := rio.Parse(img)
	if err != nil {
		c.Violate("harness/parse", "%v", err)
		return
	}
	cuts := map[int]string{}
	for i, rec := range pf.Recs {
		cuts[rec.Start] = fmt.Sprintf("at the boundary before record %d", i)
		if rec.End()-rec.Start > 4 {
			cuts[rec.Start+2+r.Intn(rec.End()-rec.Start-3)] = fmt.Sprintf("inside record %d", i)
		}
	}
	units, nt2 := int64(0), int64(0)
	for cut, what := range cuts {
		if cut <= 8 && len(pf.Recs) > 0 && cut < pf.Recs[0].Start {
			continue
		}
		_ = os.WriteFile(dataPath, img[:cut], 0644)
		out, err := run()
		units++
		c.Obs("merger_fault_runs", 1)
		c.Obs("real_table_truncation_runs", 1)
		if err != nil {
			nt2++
			c.Obs("merger_faults_reached", 1)
			c.Obs("merger_errors_reported", 1)
			continue
		}
		if d := sameKVs(out, base); d != "" {
			kind := "inside-a-record"
			if strings.HasPrefix(what, "at the boundary") {
				kind = "at-a-record-boundary"
			}
			c.Violate("merge-fault/absorbed/real-input-data-file-ends-early/"+kind, "MergeCompact over real tables returned nil although the data file of input %d ends %s (cut at %d of %d bytes); output differs from the fault-free output: %s", victim, what, cut, len(img), d)
			break
		}
	}
	_ = os.WriteFile(dataPath, img, 0644)
	if nt2 > 0 {
		c.Nontrivial()
	}
	c.SetUnits(units, nt2)
}

// silence unused import when pq is not otherwise referenced
var _ = pq.Done

// ---------- (b) SimpleDB scenarios in a sub-process

type c11Plan struct {
	mu        sync.Mutex
	armed     bool
	kind      string // data | index | iter
	k         int    // position
	input     int
	dataCalls int
	idxCalls  int
	reached   bool
}

var c11plan c11Plan

type c11Data struct {
	recordio.WriterI
}

func (d *c11Data) Write(rec []byte) (uint64, error) {
	c11plan.mu.Lock()
	fail := false
	if c11plan.armed && c11plan.kind == "data" {
		if c11plan.dataCalls == c11plan.k {
			fail = true
			c11plan.reached = true
		}
		c11plan.dataCalls++
	}
	c11plan.mu.Unlock()
	if fail {
		return 0, errInjected
	}
	return d.WriterI.Write(rec)
}

type c11Index struct {
	rProto.WriterI
}

func (d *c11Index) Write(m proto.Message) (uint64, error) {
	c11plan.mu.Lock()
	fail := false
	if c11plan.armed && c11plan.kind == "index" {
		if c11plan.idxCalls == c11plan.k {
			fail = true
			c11plan.reached = true
		}
		c11plan.idxCalls++
	}
	c11plan.mu.Unlock()
	if fail {
		return 0, errInjected
	}
	return d.WriterI.Write(m)
}

// Close of the wrapped index writer: with the fault kind "indexclose" the final flush of the index fails (the writer
// itself is closed underneath, so nothing leaks; what counts is that the table writer's Close got an error)
func (d *c11Index) Close() error {
	err := d.WriterI.Close()
	c11plan.mu.Lock()
	fail := c11plan.armed && c11plan.kind == "indexclose"
	if fail {
		c11plan.reached = true
	}
	c11plan.mu.Unlock()
	if fail {
		return errInjected
	}
	return err
}

type c11FailIter struct {
	inner  sstables.SSTableMergeIteratorContext
	failAt int
	calls  int
}

func (f *c11FailIter) Next() ([]byte, []byte, error) {
	call := f.calls
	f.calls++
	if call == f.failAt {
		c11plan.mu.Lock()
		c11plan.reached = true
		c11plan.mu.Unlock()
		return nil, nil, errC11
	}
	k, v, err := f.inner.Next()
	if err != nil && errors.Is(err, pq.Done) {
		return nil, nil, sstables.Done
	}
	return k, v, err
}

type c11Report struct {
	Phase      string             `json:"phase"`
	Model      map[string]*string `json:"model,omitempty"`
	Err        string             `json:"err,omitempty"`
	Reads      map[string]*string `json:"reads,omitempty"`
	Reached    bool               `json:"reached"`
	Tables     int                `json:"tables"`
	Selected   int                `json:"selected"`
	OpenErr    string             `json:"open_err,omitempty"`
	CloseErr   string             `json:"close_err,omitempty"`
	FlushIdle  bool               `json:"flush_idle"`
	ExclOldest bool               `json:"excl_oldest"`
	Closed     bool               `json:"closed"`
}

func c11ReadAll(db *simpledb.DB, keys []string) (map[string]*string, error) {
	out := map[string]*string{}
	for _, k := range keys {
		v, err := db.Get(k)
		if err != nil {
			if errors.Is(err, simpledb.ErrNotFound) {
				out[k] = nil
				continue
			}
			return out, fmt.Errorf("Get(%q): %w", k, err)
		}
		vv := v
		out[k] = &vv
	}
	return out, nil
}

// c11FlusherFailed reports whether the flusher goroutine has failed: its log.Panicf is then parked behind the
// deferred, unbuffered 'doneFlushChannel <- true' until somebody calls Close (observed on the pinned tree).
func c11FlusherFailed() bool {
	buf := make([]byte, 1<<20)
	n := runtime.Stack(buf, true)
	for _, g := range strings.Split(string(buf[:n]), "\n\n") {
		if strings.Contains(g, "simpledb.flushMemstoreContinuously.func1") && strings.Contains(g, "chan send") {
			return true
		}
	}
	return false
}

// c11WaitIdle waits until every handed-off memstore is installed (true) or the flusher has failed (false).
// The wall-clock bound only guards the harness; expiry is reported as "not idle".
func c11WaitIdle(d time.Duration) bool {
	dl := time.Now().Add(d)
	for i := 0; time.Now().Before(dl); i++ {
		if simpledb.VerifFlushIdle() {
			return true
		}
		if i%20 == 19 && c11FlusherFailed() {
			return false
		}
		time.Sleep(200 * time.Microsecond)
	}
	return simpledb.VerifFlushIdle()
}

func c11Sub(args []string) int {
	fs := flag.NewFlagSet("c11sub", flag.ExitOnError)
	dir := fs.String("dir", "", "")
	mode := fs.String("mode", "flush", "flush|compaction|verify")
	fault := fs.String("fault", "none", "")
	seed := fs.Int64("seed", 1, "")
	keysArg := fs.String("keys", "", "comma separated key universe (verify mode)")
	_ = fs.Parse(args)
	enc := json.NewEncoder(os.Stdout)
	signal.Ignore(syscall.SIGXFSZ)
	r := rand.New(rand.NewSource(*seed))
	if *mode == "verify" {
		db, err := simpledb.NewSimpleDB(*dir, simpledb.DisableCompactions())
		if err == nil {
			err = db.Open()
		}
		if err != nil {
			_ = enc.Encode(c11Report{Phase: "verify", OpenErr: err.Error()})
			return 0
		}
		reads, err := c11ReadAll(db, strings.Split(*keysArg, ","))
		rep := c11Report{Phase: "verify", Reads: reads}
		if err != nil {
			rep.Err = err.Error()
		}
		if err := db.Close(); err != nil {
			rep.CloseErr = err.Error()
		}
		_ = enc.Encode(rep)
		return 0
	}
	if *mode == "recovery" {
		return c11Recovery(*dir, *fault, strings.Split(*keysArg, ","), enc)
	}
	if *mode == "liveclose" {
		return c11LiveClose(*dir, r, enc)
	}
	wbuf := uint64([]int{64, 256, 4096}[r.Intn(3)])
	// half of the compaction scenarios whose fault is placed by a hook or a size limit leave the OLDEST table out of the
	// cycle (it is made bigger than the size limit): the merge then has to keep tombstones, which is another code path
	exclOldest := false
	switch strings.Split(*fault, ":")[0] {
	case "data", "index", "indexclose", "iter", "rlimit":
		exclOldest = *mode == "compaction" && r.Intn(2) == 0
	}
	maxSize := uint64(1 << 40)
	if exclOldest {
		maxSize = 1500
	}
	db, err := simpledb.NewSimpleDB(*dir, simpledb.DisableCompactions(), simpledb.MemstoreSizeBytes(1<<30),
		simpledb.WriteBufferSizeBytes(wbuf), simpledb.CompactionFileThreshold(0), simpledb.CompactionMaxSizeBytes(maxSize))
	if err == nil {
		err = db.Open()
	}
	if err != nil {
		_ = enc.Encode(c11Report{Phase: "setup", OpenErr: err.Error()})
		return 3
	}
	nkeys := 4 + r.Intn(10)
	var keys []string
	for i := 0; i < nkeys; i++ {
		keys = append(keys, fmt.Sprintf("key-%03d", i))
	}
	model := map[string]*string{}
	for _, k := range keys {
		model[k] = nil
	}
	write := func(n int) error {
		for i := 0; i < n; i++ {
			k := keys[r.Intn(len(keys))]
			if r.Intn(5) == 0 {
				if err := db.Delete(k); err != nil {
					return err
				}
				model[k] = nil
			} else {
				v := fmt.Sprintf("val-%d-%s", r.Intn(100000), string(gen.Compressible(r, r.Intn(60))))
				if err := db.Put(k, v); err != nil {
					return err
				}
				model[k] = &v
			}
		}
		return nil
	}
	tables := 0
	if *mode == "compaction" {
		tables = 2 + r.Intn(3)
		if exclOldest {
			tables++
			// the oldest table: 40 further keys with incompressible 100-byte values (well above the size limit)
			for i := 0; i < 40; i++ {
				k, v := fmt.Sprintf("old-%03d", i), hex.EncodeToString(gen.Bytes(r, 50))
				if err := db.Put(k, v); err != nil {
					_ = enc.Encode(c11Report{Phase: "setup", Err: err.Error()})
					return 3
				}
				keys = append(keys, k)
				model[k] = &v
			}
		}
		for t := 0; t < tables; t++ {
			if err := write(3 + r.Intn(10)); err != nil {
				_ = enc.Encode(c11Report{Phase: "setup", Err: err.Error()})
				return 3
			}
			if err := db.VerifForceRotate(); err != nil {
				_ = enc.Encode(c11Report{Phase: "setup", Err: err.Error()})
				return 3
			}
			if !c11WaitIdle(20 * time.Second) {
				_ = enc.Encode(c11Report{Phase: "setup", Err: "flusher not idle"})
				return 3
			}
		}
	} else {
		if err := write(5 + r.Intn(25)); err != nil {
			_ = enc.Encode(c11Report{Phase: "setup", Err: err.Error()})
			return 3
		}
	}
	_ = enc.Encode(c11Report{Phase: "armed", Model: model, Tables: len(db.VerifLiveTables())})
	_ = os.Stdout.Sync()
	if *mode == "craft" {
		os.Exit(0) // no Close: a kill image whose newest data only lives in the WAL
	}

	// arm
	var oldLim syscall.Rlimit
	rlimit := false
	devfull := false
	bitflip := false
	parts := strings.Split(*fault, ":")
	switch parts[0] {
	case "data", "index", "indexclose":
		if len(parts) > 1 {
			fmt.Sscan(parts[1], &c11plan.k)
		}
		c11plan.kind = parts[0]
		c11plan.armed = true
		sstables.VerifWriterWrap = func(_ string, idx rProto.WriterI, data recordio.WriterI) (rProto.WriterI, recordio.WriterI) {
			return &c11Index{idx}, &c11Data{data}
		}
	case "iter":
		var in, p int
		fmt.Sscan(parts[1], &in)
		fmt.Sscan(parts[2], &p)
		simpledb.VerifCompactionIterWrap = func(its []sstables.SSTableMergeIteratorContext) []sstables.SSTableMergeIteratorContext {
			out := make([]sstables.SSTableMergeIteratorContext, len(its))
			for i, it := range its {
				fa := -1
				if i == in%len(its) {
					fa = p
				}
				out[i] = sstables.NewMergeIteratorContext(it.Context(), &c11FailIter{inner: it, failAt: fa})
			}
			return out
		}
	case "rlimit":
		var l uint64
		fmt.Sscan(parts[1], &l)
		_ = syscall.Getrlimit(syscall.RLIMIT_FSIZE, &oldLim)
		if err := syscall.Setrlimit(syscall.RLIMIT_FSIZE, &syscall.Rlimit{Cur: l, Max: oldLim.Max}); err == nil {
			rlimit = true
		}
	case "bitflip":
		var pick int
		fmt.Sscan(parts[1], &pick)
		live := db.VerifLiveTables()
		if len(live) > 0 {
			dp := filepath.Join(*dir, filepath.Base(live[pick%len(live)].BasePath), sstables.DataFileName)
			if img, err := os.ReadFile(dp); err == nil {
				if pf, err := rio.Parse(img); err == nil {
					var cand []rio.Rec
					for _, rc := range pf.Recs {
						if rc.PayloadLen > 0 {
							cand = append(cand, rc)
						}
					}
					if len(cand) > 0 {
						rc := cand[pick%len(cand)]
						img[rc.PayloadOff+(pick/7)%rc.PayloadLen] ^= 1 << (pick % 8)
						if f, err := os.OpenFile(dp, os.O_WRONLY, 0); err == nil {
							_, werr := f.WriteAt(img, 0)
							_ = f.Close()
							bitflip = werr == nil
						}
					}
				}
			}
		}
	case "devfull":
		next := uint64(1)
		if ents, err := os.ReadDir(*dir); err == nil {
			for _, e := range ents {
				var n uint64
				if _, err := fmt.Sscanf(e.Name(), simpledb.SSTablePattern, &n); err == nil && n >= next {
					next = n + 1
				}
			}
		}
		d := filepath.Join(*dir, fmt.Sprintf(simpledb.SSTablePattern, next))
		if err := os.MkdirAll(d, 0700); err == nil {
			devfull = os.Symlink("/dev/full", filepath.Join(d, parts[1])) == nil
		}
		if devfull && parts[1] != "bloom.bf.gz" {
			// the table writer must not claim success when its metadata, index or data file could not be written: the
			// point right after it returned nil is where that claim becomes observable (what the flusher does with such
			// a table afterwards — e.g. loading it — is a consequence, and need not terminate)
			simpledb.VerifSetPoint("flush.tableWritten", func() {
				_ = enc.Encode(c11Report{Phase: "table-writer-claimed-success"})
				_ = os.Stdout.Sync()
				os.Exit(0)
			})
		}
	}
	rep := c11Report{Phase: "result", Tables: tables}
	if *mode == "closeflush" {
		// the memstore is written out by Close itself: a failure of that flush has to surface as an error of Close or as
		// the end of the process, like any other flush
		err = db.Close()
		rep.Closed = true
		// a flusher that failed ends in log.Panicf, and its deferred hand-shake with Close runs while that panic unwinds:
		// Close can return nil a few microseconds before the process dies. As long as the flusher goroutine still exists
		// its fate is open — the report is only written once it is gone (a flusher that ended normally is gone at once);
		// if the process dies meanwhile, that is "the process stops"
		for i := 0; c11GoroutineIn("", "simpledb.flushMemstoreContinuously"); i++ {
			if i > 2000 {
				select {} // still there after two seconds: leave the verdict to the parent's watchdog (inconclusive)
			}
			time.Sleep(time.Millisecond)
		}
	} else if *mode == "flush" {
		err = db.VerifForceRotate()
		if err != nil {
			rep.Phase = "result-rotate-failed" // the fault hit the WAL rotation, i.e. before the flush began
		}
		if err == nil {
			rep.FlushIdle = c11WaitIdle(20 * time.Second)
			if !rep.FlushIdle {
				err = errors.New("verif: the flusher failed (its panic is pending behind the done-channel send) or did not become idle")
			}
		}
	} else {
		var md interface{ GetSstablePaths() []string }
		before := db.VerifLiveTables()
		m, e := db.VerifCompactOnce()
		err = e
		if m != nil {
			md = m
			rep.Selected = len(md.GetSstablePaths())
		}
		rep.ExclOldest = exclOldest && len(before) >= 3
	}
	// disarm before reporting
	if rlimit {
		_ = syscall.Setrlimit(syscall.RLIMIT_FSIZE, &oldLim)
	}
	c11plan.mu.Lock()
	c11plan.armed = false
	rep.Reached = c11plan.reached
	c11plan.mu.Unlock()
	sstables.VerifWriterWrap = nil
	simpledb.VerifCompactionIterWrap = nil
	if err != nil {
		rep.Err = err.Error()
		if rlimit && strings.Contains(err.Error(), "file too large") {
			rep.Reached = true
		}
		if devfull {
			rep.Reached = true // nothing else can fail in this scenario (the flusher's own error text ends up in its panic)
		}
	}
	if bitflip {
		rep.Reached = true // the damaged record sits in a table of the run (every live table is selected with these settings)
	}
	if rep.Closed {
		_ = enc.Encode(rep)
		_ = os.Stdout.Sync()
		return 0
	}
	reads, rerr := c11ReadAll(db, keys)
	rep.Reads = reads
	if rerr != nil && rep.Err == "" {
		rep.Err = "read-back: " + rerr.Error()
	}
	_ = enc.Encode(rep)
	_ = os.Stdout.Sync()
	if err := db.Close(); err != nil {
		_ = enc.Encode(c11Report{Phase: "closed", CloseErr: err.Error()})
	} else {
		_ = enc.Encode(c11Report{Phase: "closed"})
	}
	return 0
}

// c11GoroutineIn reports whether some goroutine whose stack contains all of `frames` is in a state containing `state`.
func c11GoroutineIn(state string, frames ...string) bool {
	buf := make([]byte, 1<<20)
	n := runtime.Stack(buf, true)
next:
	for _, g := range strings.Split(string(buf[:n]), "\n\n") {
		head, _, _ := strings.Cut(g, "\n")
		if !strings.Contains(head, state) {
			continue
		}
		for _, f := range frames {
			if !strings.Contains(g, f) {
				continue next
			}
		}
		return true
	}
	return false
}

// c11LiveClose: the REAL background compactor (1 ms ticker) meets a failing input record while Close is already waiting
// for it. The failing iterator holds its error back until the goroutine dump shows Close waiting for the compactor's done signal, its stop request sent
// (state based, no sleeping), then fails. Accepted outcomes: the process stops, Close returns an error, or the
// compactor is in its log.Panicf (parked behind its done signal, like a failed flusher). Close returning nil is not.
func c11LiveClose(dir string, r *rand.Rand, enc *json.Encoder) int {
	db, err := simpledb.NewSimpleDB(dir, simpledb.CompactionRunInterval(time.Millisecond), simpledb.MemstoreSizeBytes(1<<30),
		simpledb.CompactionFileThreshold(0), simpledb.CompactionMaxSizeBytes(1<<40), simpledb.WriteBufferSizeBytes(256))
	if err == nil {
		err = db.Open()
	}
	if err != nil {
		_ = enc.Encode(c11Report{Phase: "setup", OpenErr: err.Error()})
		return 3
	}
	reached := make(chan struct{})
	var once sync.Once
	failAt := r.Intn(3)
	simpledb.VerifCompactionIterWrap = func(its []sstables.SSTableMergeIteratorContext) []sstables.SSTableMergeIteratorContext {
		if len(its) < 2 {
			return its
		}
		out := make([]sstables.SSTableMergeIteratorContext, len(its))
		for i, it := range its {
			out[i] = it
		}
		out[0] = sstables.NewMergeIteratorContext(its[0].Context(), &c11HoldIter{inner: its[0], failAt: failAt, reached: reached, once: &once})
		return out
	}
	for t := 0; t < 3; t++ {
		for i := 0; i < 4+r.Intn(6); i++ {
			_ = db.Put(fmt.Sprintf("key-%03d", r.Intn(12)), fmt.Sprintf("val-%d", r.Intn(100000)))
		}
		if err := db.VerifForceRotate(); err != nil {
			_ = enc.Encode(c11Report{Phase: "setup", Err: err.Error()})
			return 3
		}
		select {
		case <-reached:
			t = 3
		default:
			_ = c11WaitIdle(20 * time.Second)
		}
	}
	select {
	case <-reached:
	case <-time.After(20 * time.Second): // harness guard only
		_ = enc.Encode(c11Report{Phase: "setup", Err: "no compaction over two tables started"})
		return 3
	}
	_ = enc.Encode(c11Report{Phase: "armed"})
	_ = os.Stdout.Sync()
	closed := make(chan error, 1)
	go func() { closed <- db.Close() }()
	dl := time.Now().Add(30 * time.Second) // harness guard only; expiry is inconclusive
	for time.Now().Before(dl) {
		select {
		case cerr := <-closed:
			rep := c11Report{Phase: "result", Reached: true}
			if cerr != nil {
				rep.CloseErr = cerr.Error()
				rep.Err = cerr.Error()
			} else if c11GoroutineIn("", "simpledb.backgroundCompaction") {
				// Close got the compactor's done signal from its deferred send — the compactor goroutine still exists, i.e. it
				// is on its way out through log.Panicf: the process is about to stop (do not race it with a normal exit)
				rep.Err = "Close returned nil while the compactor goroutine was still unwinding its panic"
				for i := 0; i < 2000 && c11GoroutineIn("", "simpledb.backgroundCompaction"); i++ {
					time.Sleep(time.Millisecond)
				}
			}
			_ = enc.Encode(rep)
			return 0
		default:
		}
		if c11GoroutineIn("", "simpledb.backgroundCompaction", "log.Panicf") {
			_ = enc.Encode(c11Report{Phase: "result", Reached: true, Err: "the compactor is in log.Panicf (parked behind its done signal)"})
			_ = os.Stdout.Sync()
			os.Exit(0)
		}
		time.Sleep(time.Millisecond)
	}
	_ = enc.Encode(c11Report{Phase: "setup", Err: "neither Close returned nor did the compactor fail"})
	os.Exit(0)
	return 0
}

// c11CloseWaitsForCompactor: Close has sent its stop request (buffered) and is blocked receiving the compactor's done
// signal — i.e. a goroutine in "chan receive" inside (*DB).Close itself, not inside the closure that waits for the flusher.
func c11CloseWaitsForCompactor() bool {
	buf := make([]byte, 1<<20)
	n := runtime.Stack(buf, true)
	for _, g := range strings.Split(string(buf[:n]), "\n\n") {
		head, _, _ := strings.Cut(g, "\n")
		if strings.Contains(head, "chan receive") && strings.Contains(g, "simpledb.(*DB).Close(") && !strings.Contains(g, "simpledb.(*DB).Close.func1") {
			return true
		}
	}
	return false
}

// c11HoldIter fails at record failAt — but only once Close is seen waiting for the compactor.
type c11HoldIter struct {
	inner   sstables.SSTableMergeIteratorContext
	failAt  int
	calls   int
	reached chan struct{}
	once    *sync.Once
}

func (f *c11HoldIter) Next() ([]byte, []byte, error) {
	call := f.calls
	f.calls++
	if call == f.failAt {
		f.once.Do(func() { close(f.reached) })
		dl := time.Now().Add(25 * time.Second) // harness guard only
		for time.Now().Before(dl) && !c11CloseWaitsForCompactor() {
			time.Sleep(200 * time.Microsecond)
		}
		return nil, nil, errC11
	}
	k, v, err := f.inner.Next()
	if err != nil && errors.Is(err, pq.Done) {
		return nil, nil, sstables.Done
	}
	return k, v, err
}

// c11Recovery opens a kill image with a fault armed: the flush that recovery performs for the replayed WAL must
// report the failure through Open (or stop the process), never absorb it.
func c11Recovery(dir, fault string, keys []string, enc *json.Encoder) int {
	var oldLim syscall.Rlimit
	rlimit := false
	parts := strings.Split(fault, ":")
	switch parts[0] {
	case "data", "index", "indexclose":
		if len(parts) > 1 {
			fmt.Sscan(parts[1], &c11plan.k)
		}
		c11plan.kind = parts[0]
		c11plan.armed = true
		sstables.VerifWriterWrap = func(_ string, idx rProto.WriterI, data recordio.WriterI) (rProto.WriterI, recordio.WriterI) {
			return &c11Index{idx}, &c11Data{data}
		}
	case "rlimit":
		var l uint64
		fmt.Sscan(parts[1], &l)
		_ = syscall.Getrlimit(syscall.RLIMIT_FSIZE, &oldLim)
		if err := syscall.Setrlimit(syscall.RLIMIT_FSIZE, &syscall.Rlimit{Cur: l, Max: oldLim.Max}); err == nil {
			rlimit = true
		}
	}
	db, err := simpledb.NewSimpleDB(dir, simpledb.DisableCompactions(), simpledb.WriteBufferSizeBytes(256))
	if err == nil {
		err = db.Open()
	}
	if rlimit {
		_ = syscall.Setrlimit(syscall.RLIMIT_FSIZE, &oldLim)
	}
	c11plan.mu.Lock()
	c11plan.armed = false
	rep := c11Report{Phase: "result", Reached: c11plan.reached}
	c11plan.mu.Unlock()
	sstables.VerifWriterWrap = nil
	if err != nil {
		rep.Err = err.Error()
		if rlimit && strings.Contains(err.Error(), "file too large") {
			rep.Reached = true
		}
		_ = enc.Encode(rep)
		return 0
	}
	reads, rerr := c11ReadAll(db, keys)
	rep.Reads = reads
	if rerr != nil {
		rep.Err = "read-back: " + rerr.Error()
	}
	_ = enc.Encode(rep)
	_ = os.Stdout.Sync()
	if err := db.Close(); err != nil {
		_ = enc.Encode(c11Report{Phase: "closed", CloseErr: err.Error()})
	}
	return 0
}

func c11DiffReads(model, reads map[string]*string) string {
	var ks []string
	for k := range model {
		ks = append(ks, k)
	}
	sort.Strings(ks)
	for _, k := range ks {
		m, g := model[k], reads[k]
		if _, ok := reads[k]; !ok {
			return fmt.Sprintf("key %s was not read", k)
		}
		if (m == nil) != (g == nil) || (m != nil && *m != *g) {
			return fmt.Sprintf("key %s reads %s, model says %s", k, strOrNF(g), strOrNF(m))
		}
	}
	return ""
}

func strOrNF(s *string) string {
	if s == nil {
		return "<not found>"
	}
	if len(*s) > 40 {
		return fmt.Sprintf("%q..", (*s)[:40])
	}
	return fmt.Sprintf("%q", *s)
}

func c11DB(c *fw.Case, j int) {
	r := c.R
	scenario := j / 12
	spec := j % 12
	mode := "flush"
	switch scenario % 3 {
	case 1:
		mode = "compaction"
	case 2:
		c11DBRecovery(c, j, scenario, spec)
		return
	}
	if mode == "compaction" && spec == 11 {
		c11DBLiveClose(c, scenario)
		return
	}
	if mode == "flush" && (scenario/3)%2 == 1 && spec < 10 {
		mode = "closeflush" // the same faults, but the flush is the one Close performs
		c.Obs("faults_placed_in_the_flush_that_close_performs", 1)
	}
	var fault string
	switch {
	case spec < 3:
		fault = fmt.Sprintf("data:%d", []int{0, 1 + r.Intn(4), 3 + r.Intn(12)}[spec])
	case spec < 6:
		fault = fmt.Sprintf("index:%d", []int{0, 1 + r.Intn(4), 3 + r.Intn(12)}[spec-3])
		if spec == 5 && scenario%2 == 1 {
			fault = "indexclose" // the index writer's own Close (its final flush) fails, every Write before it succeeded
		}
	case spec < 10:
		fault = fmt.Sprintf("rlimit:%d", []int{r.Intn(8), 8 + r.Intn(40), 48 + r.Intn(400), 300 + r.Intn(3000)}[spec-6])
	default:
		if mode == "compaction" && scenario%2 == 0 {
			// a record of an input table no longer reads back as written (one bit of its stored payload flipped on disk after
			// the table was loaded): reading it fails its checksum — the compaction must not launder it into a fresh table
			fault = fmt.Sprintf("bitflip:%d", r.Intn(1000))
		} else if mode == "compaction" {
			fault = fmt.Sprintf("iter:%d:%d", r.Intn(4), r.Intn(8))
		} else if spec == 10 {
			fault = fmt.Sprintf("rlimit:%d", 20+r.Intn(200))
		} else {
			// ONE file of the table the flush is about to write sits on a full device (a symlink to /dev/full planted
			// in the directory the flush will use): every write to it fails with ENOSPC, all other files are fine
			fault = "devfull:" + []string{"meta.pb.bin", "index.rio", "data.rio", "bloom.bf.gz"}[(scenario/3)%4]
		}
	}
	c.HashAdd(scenario, mode, fault)
	c.Obs("db_fault_scenarios", 1)
	seed := fw.CaseSeed("C11-scenario", c.Seed, scenario)
	res := fw.RunSub("", 90, nil, c.Dir, "c11sub", "-dir", c.Dir, "-mode", mode, "-fault", fault, "-seed", fmt.Sprint(seed))
	if res.TimedOut {
		c.Inconclusive("c11sub watchdog expired: " + fault)
		return
	}
	var armed, result *c11Report
	for _, ln := range bytes.Split(res.Stdout, []byte("\n")) {
		var rep c11Report
		if json.Unmarshal(ln, &rep) != nil {
			continue
		}
		rr := rep
		switch rep.Phase {
		case "armed":
			armed = &rr
		case "result":
			result = &rr
		case "table-writer-claimed-success":
			c.Obs("db_fault_reached", 1)
			c.Obs("full_device_faults_reached", 1)
			c.Violate("db-fault/absorbed/flush/devfull/"+strings.TrimPrefix(fault, "devfull:"), "mode=%s fault=%s scenario=%d: every write to that file of the new table failed with ENOSPC, yet the table writer returned success to the flusher", mode, fault, scenario)
			return
		case "result-rotate-failed":
			// the WAL rotation failed before the flush started: reported as an error, outside this property
			c.Obs("fault_hit_wal_rotation_before_flush", 1)
			return
		case "setup":
			c.Inconclusive(fmt.Sprintf("scenario set-up failed before any fault: %s %s", rep.OpenErr, rep.Err))
			return
		}
	}
	if armed == nil {
		c.Inconclusive(fmt.Sprintf("sub-process ended before the fault was armed (exit %d): %s", res.Exit, cutS(res.Stderr, 300)))
		return
	}
	desc := fmt.Sprintf("mode=%s fault=%s scenario=%d", mode, fault, scenario)
	kind := strings.Split(fault, ":")[0]
	if result == nil {
		// the process stopped after the fault was armed: that is "the process stops"
		c.Obs("db_process_stopped_or_error", 1)
		c.Obs("db_fault_reached", 1)
		if kind == "rlimit" {
			c.Obs("rlimit_faults_reached", 1)
		}
		if kind == "devfull" {
			c.Obs("full_device_faults_reached", 1)
		}
		c.Nontrivial()
		return
	}
	if result.Reached && result.ExclOldest {
		c.Obs("faults_reached_in_cycles_that_leave_the_oldest_table_out", 1)
	}
	if result.Reached {
		c.Obs("db_fault_reached", 1)
		if kind == "rlimit" {
			c.Obs("rlimit_faults_reached", 1)
		}
		if kind == "devfull" {
			c.Obs("full_device_faults_reached", 1)
		}
		c.Nontrivial()
	}
	if kind == "devfull" && result.Err == "" {
		// success was reported although one file of the table could not be written: acceptable only if nothing is
		// missing or misrepresented (the read comparisons below, in this process and in a fresh one)
		c.Obs("full_device_on_a_file_whose_loss_was_not_reported", 1)
	}
	if kind == "bitflip" && result.Reached {
		c.Obs("damaged_input_records_met_by_a_compaction", 1)
	}
	if kind == "bitflip" && result.Err != "" {
		// the table stays damaged on disk: what is readable afterwards is not this property's business
		c.Obs("db_process_stopped_or_error", 1)
		return
	}
	if result.Err != "" {
		c.Obs("db_process_stopped_or_error", 1)
	} else if result.Reached {
		c.Violate("db-fault/absorbed/"+mode+"/"+kind, "%s: the injected failure was reached but %s reported success", desc, mode)
		return
	}
	// whether or not the fault was reached: what is readable must be the model
	if d := c11DiffReads(armed.Model, result.Reads); d != "" && !result.Closed {
		sig := "db-fault/reads-differ-after-" + mode
		if result.Err == "" {
			sig += "/success-reported"
		} else {
			sig += "/error-reported"
		}
		c.Violate(sig+"/"+kind, "%s (err=%q reached=%v): %s", desc, result.Err, result.Reached, d)
		return
	}
	if res.Exit != 0 {
		return // died during Close after the report: nothing more to judge here
	}
	// fresh process, no faults
	var ks []string
	for k := range armed.Model {
		ks = append(ks, k)
	}
	sort.Strings(ks)
	v := fw.RunSub("", 60, nil, c.Dir, "c11sub", "-dir", c.Dir, "-mode", "verify", "-keys", strings.Join(ks, ","))
	var vr c11Report
	if json.Unmarshal(bytes.TrimSpace(v.Stdout), &vr) != nil {
		c.Violate("db-fault/reopen-died/"+mode+"/"+kind, "%s: the verifying process ended abnormally (exit %d): %s", desc, v.Exit, cutS(v.Stderr, 600))
		return
	}
	if vr.OpenErr != "" {
		c.Violate("db-fault/reopen-fails/"+mode+"/"+kind, "%s (err=%q): Open in a fresh process fails: %s", desc, result.Err, vr.OpenErr)
		return
	}
	if d := c11DiffReads(armed.Model, vr.Reads); d != "" {
		c.Violate("db-fault/reads-differ-after-reopen/"+mode+"/"+kind, "%s (err=%q): after reopen: %s", desc, result.Err, d)
		return
	}
	if j%40 == 0 {
		c.Sample(map[string]any{"scenario": desc, "error_reported": result.Err, "fault_reached": result.Reached, "tables": result.Tables, "selected": result.Selected})
	}
}

// c11DBLiveClose: an input record of a compaction run by the real background compactor fails while Close waits for it.
func c11DBLiveClose(c *fw.Case, scenario int) {
	c.HashAdd(scenario, "liveclose")
	c.Obs("db_fault_scenarios", 1)
	seed := fw.CaseSeed("C11-liveclose", c.Seed, scenario)
	res := fw.RunSub("", 90, nil, c.Dir, "c11sub", "-dir", c.Dir, "-mode", "liveclose", "-fault", "hold", "-seed", fmt.Sprint(seed))
	if res.TimedOut {
		c.Inconclusive("c11sub (liveclose) watchdog expired")
		return
	}
	armed := false
	var result *c11Report
	for _, ln := range bytes.Split(res.Stdout, []byte("\n")) {
		var rep c11Report
		if json.Unmarshal(ln, &rep) != nil {
			continue
		}
		rr := rep
		switch rep.Phase {
		case "armed":
			armed = true
		case "result":
			result = &rr
		case "setup":
			c.Inconclusive(fmt.Sprintf("liveclose scenario could not be set up: %s %s", rep.OpenErr, rep.Err))
			return
		}
	}
	if !armed {
		c.Inconclusive(fmt.Sprintf("liveclose sub-process ended before the fault was armed (exit %d): %s", res.Exit, cutS(res.Stderr, 300)))
		return
	}
	c.Obs("db_fault_reached", 1)
	c.Obs("live_compactor_failures_while_close_waits", 1)
	c.Nontrivial()
	if result == nil || result.Err != "" {
		c.Obs("db_process_stopped_or_error", 1)
		return
	}
	c.Violate("db-fault/absorbed/compaction-while-closing", "scenario=%d: an input record of the background compaction failed while Close was waiting for the compactor; Close returned nil, the process went on, nothing was reported", scenario)
}

// c11DBRecovery: kill image with data only in the WAL, then Open with a fault inside recovery's own flush.
func c11DBRecovery(c *fw.Case, j, scenario, spec int) {
	r := c.R
	var fault string
	switch {
	case spec < 3:
		fault = fmt.Sprintf("data:%d", []int{0, 1 + r.Intn(3), 2 + r.Intn(6)}[spec])
	case spec < 6:
		fault = fmt.Sprintf("index:%d", []int{0, 1 + r.Intn(3), 2 + r.Intn(6)}[spec-3])
	default:
		fault = fmt.Sprintf("rlimit:%d", []int{r.Intn(9), 9 + r.Intn(60), 60 + r.Intn(300), 200 + r.Intn(1500), 8 + r.Intn(2000), 8 + r.Intn(400)}[spec-6])
	}
	c.HashAdd(scenario, "recovery", fault)
	c.Obs("db_fault_scenarios", 1)
	c.Obs("db_recovery_flush_scenarios", 1)
	seed := fw.CaseSeed("C11-scenario", c.Seed, scenario)
	craft := fw.RunSub("", 90, nil, c.Dir, "c11sub", "-dir", c.Dir, "-mode", "craft", "-fault", "none", "-seed", fmt.Sprint(seed))
	var armed *c11Report
	for _, ln := range bytes.Split(craft.Stdout, []byte("\n")) {
		var rep c11Report
		if json.Unmarshal(ln, &rep) == nil && rep.Phase == "armed" {
			rr := rep
			armed = &rr
		}
	}
	if armed == nil {
		c.Inconclusive("crafting the kill image failed: " + cutS(craft.Stderr, 300))
		return
	}
	var ks []string
	for k := range armed.Model {
		ks = append(ks, k)
	}
	sort.Strings(ks)
	desc := fmt.Sprintf("mode=recovery-flush fault=%s scenario=%d", fault, scenario)
	kind := strings.Split(fault, ":")[0]
	res := fw.RunSub("", 90, nil, c.Dir, "c11sub", "-dir", c.Dir, "-mode", "recovery", "-fault", fault, "-keys", strings.Join(ks, ","))
	if res.TimedOut {
		c.Inconclusive("recovery sub-process watchdog expired")
		return
	}
	var result *c11Report
	for _, ln := range bytes.Split(res.Stdout, []byte("\n")) {
		var rep c11Report
		if json.Unmarshal(ln, &rep) == nil && rep.Phase == "result" {
			rr := rep
			result = &rr
		}
	}
	if result == nil {
		c.Obs("db_process_stopped_or_error", 1)
		c.Obs("db_fault_reached", 1)
		c.Nontrivial()
		return
	}
	if result.Reached {
		c.Obs("db_fault_reached", 1)
		if kind == "rlimit" {
			c.Obs("rlimit_faults_reached", 1)
		}
		c.Nontrivial()
	}
	if result.Err != "" {
		c.Obs("db_process_stopped_or_error", 1)
		return
	}
	if result.Reached {
		c.Violate("db-fault/absorbed/recovery-flush/"+kind, "%s: the injected failure was reached inside Open but Open reported success", desc)
		return
	}
	if d := c11DiffReads(armed.Model, result.Reads); d != "" {
		c.Violate("db-fault/reads-differ-after-recovery-flush/success-reported/"+kind, "%s: %s", desc, d)
		return
	}
	if res.Exit != 0 {
		return
	}
	v := fw.RunSub("", 60, nil, c.Dir, "c11sub", "-dir", c.Dir, "-mode", "verify", "-keys", strings.Join(ks, ","))
	var vr c11Report
	if json.Unmarshal(bytes.TrimSpace(v.Stdout), &vr) != nil || vr.OpenErr != "" {
		c.Violate("db-fault/reopen-fails/recovery-flush/"+kind, "%s: Open had reported success; the next Open fails: %s %s", desc, vr.OpenErr, cutS(v.Stderr, 300))
		return
	}
	if d := c11DiffReads(armed.Model, vr.Reads); d != "" {
		c.Violate("db-fault/reads-differ-after-reopen/recovery-flush/"+kind, "%s: Open had reported success; after the next Open: %s", desc, d)
	}
}

func cutS(s string, n int) string {
	if len(s) > n {
		return s[:n]
	}
	return s
}
