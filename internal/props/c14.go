package props

import (
	"bytes"
	"errors"
	"fmt"
	"sort"

	"github.com/thomasjungblut/go-sstables/memstore"
	"github.com/thomasjungblut/go-sstables/skiplist"
	"github.com/thomasjungblut/go-sstables/sstables"

	"verif/internal/fw"
	"verif/internal/gen"
)

// C14 — memstore = map with tombstones; both flush variants write an equal table.

type c14ent struct {
	tomb bool
	val  []byte
}

func init() {
	fw.Register(&fw.Prop{
		ID: "C14",
		Meta: func(tier string) fw.Meta {
			n := 4000
			if tier == "thorough" {
				n = 120000
			}
			return fw.Meta{N: n, Level: "exploration", Chunk: 100, CaseTimeoutS: 60, MinNT: 500,
				Rule:        "seeded programs of 1..200 calls over all 8 mutating/reading methods (+Size, EstimatedSizeInBytes, SStableIterator) on universes of 3 or 200 keys (incl. the empty key), values empty/short/long, nil key/value arguments; every result compared with a map-with-tombstones model; then Flush or FlushWithTombstones into a scratch dir and read back through the real table reader (Scan + Get). Non-trivial: program contains a delete/tombstone of a present key, a re-add of a tombstoned key and a flush; distinct by hash of the call sequence Every fifth program takes all its keys as prefixes of ONE caller buffer (same start address, capacity clipped).",
				MinObs:      map[string]int64{"universes_of_prefixes_of_one_buffer": 100, "calls_compared": 50000, "flush_readbacks": 1000, "tombstones_flushed_as_nil": 200, "nil_args_rejected": 100, "readd_after_tombstone": 200},
				Assumptions: []string{"size estimate is only required not to wrap (bounded by 4x the bytes ever passed in)"},
			}
		},
		Run: runC14,
	})
}

func runC14(c *fw.Case) {
	r := c.R
	m := memstore.NewMemStore()
	model := map[string]*c14ent{}
	var universe [][]byte
	if r.Intn(3) == 0 {
		universe = gen.AscendingKeys(r, 200, gen.Pick(r, 0, 1, 3))
	} else {
		universe = gen.AscendingKeys(r, 3, gen.Pick(r, 0, 1, 3, 4))
	}
	if r.Intn(4) == 0 {
		universe[0] = []byte{} // the empty key is a legal key
	}
	for i, k := range universe {
		universe[i] = append(make([]byte, 0, len(k)), k...) // own allocation, no spare capacity, no neighbours
	}
	if c.Idx%5 == 2 {
		// every key is a prefix of ONE caller buffer (path-like keys cut from one array: "user", "user:1", "user:1:name"):
		// same start address, different lengths, capacity clipped to the length
		buf := gen.Bytes(r, len(universe)+1)
		for i := range universe {
			universe[i] = buf[: i+1 : i+1]
		}
		if r.Intn(4) == 0 {
			universe[0] = buf[:0:0]
		}
		c.Obs("universes_of_prefixes_of_one_buffer", 1)
	}
	steps := 1 + r.Intn(200)
	everBytes := uint64(0)
	sawDelPresent, sawReadd, flushed := false, false, false
	// a small pool of value slices that are passed again and again (the SAME slice object under several keys and
	// for equal-length overwrites): the memstore keeps the caller's slice, so it must never write into one
	shared := [][]byte{[]byte("on"), []byte("of"), []byte("xy"), []byte("12345678"), []byte("abcdefgh")}
	sharedCopy := make([]string, len(shared))
	for i := range shared {
		sharedCopy[i] = string(shared[i])
	}
	val := func() []byte {
		if r.Intn(4) == 0 {
			c.Obs("shared_value_slices_passed", 1)
			return shared[r.Intn(len(shared))]
		}
		switch r.Intn(5) {
		case 0:
			return []byte{}
		case 1:
			return gen.Payload(r, 2000)
		default:
			return gen.Payload(r, 24)
		}
	}
	errName := func(e error) string {
		switch {
		case e == nil:
			return "nil"
		case errors.Is(e, memstore.KeyAlreadyExists):
			return "KeyAlreadyExists"
		case errors.Is(e, memstore.KeyNotFound):
			return "KeyNotFound"
		case errors.Is(e, memstore.KeyTombstoned):
			return "KeyTombstoned"
		case errors.Is(e, memstore.KeyNil):
			return "KeyNil"
		case errors.Is(e, memstore.ValueNil):
			return "ValueNil"
		}
		return "other:" + e.Error()
	}
	// keys of the pure lookup / delete calls (which never store the key) go through ONE reused buffer that is
	// overwritten right after the call: nothing may remember it
	lookBuf := make([]byte, 0, 64)
	lk := func(k []byte) []byte {
		if len(k) == 0 {
			return k
		}
		lookBuf = append(lookBuf[:0], k...)
		c.Obs("lookups_through_a_reused_key_buffer", 1)
		return lookBuf
	}
	scribble := func() {
		for i := range lookBuf[:cap(lookBuf)] {
			lookBuf[:cap(lookBuf)][i] = 0xEE
		}
	}
	var trace []string
	note := func(s string) {
		if len(trace) < 400 {
			trace = append(trace, s)
		}
	}
	expect := func(op string, got error, want string) {
		c.Obs("calls_compared", 1)
		if errName(got) != want {
			c.Violate("memstore/"+op+"/error", "%s returned %s want %s\ntrace: %v", op, errName(got), want, trace)
		}
	}
	for s := 0; s < steps && !c.Violated(); s++ {
		k := universe[r.Intn(len(universe))]
		ks := string(k)
		e := model[ks]
		op := r.Intn(14)
		c.HashAdd(op, k)
		switch op {
		case 0, 1: // Add
			if r.Intn(25) == 0 {
				// nil arguments must be rejected and change nothing
				if r.Intn(2) == 0 {
					expect("Add(nil key)", m.Add(nil, []byte("v")), "KeyNil")
				} else {
					expect("Add(nil value)", m.Add(k, nil), "ValueNil")
				}
				c.Obs("nil_args_rejected", 1)
				continue
			}
			v := val()
			c.HashAdd(v)
			everBytes += uint64(len(k) + len(v))
			note(fmt.Sprintf("Add(%x,len%d)", k, len(v)))
			err := m.Add(k, v)
			if e != nil && !e.tomb {
				expect("Add", err, "KeyAlreadyExists")
			} else {
				expect("Add", err, "nil")
				if e != nil && e.tomb {
					sawReadd = true
					c.Obs("readd_after_tombstone", 1)
				}
				model[ks] = &c14ent{val: append([]byte{}, v...)}
			}
		case 2, 3, 4: // Upsert
			if r.Intn(25) == 0 {
				if r.Intn(2) == 0 {
					expect("Upsert(nil key)", m.Upsert(nil, []byte("v")), "KeyNil")
				} else {
					expect("Upsert(nil value)", m.Upsert(k, nil), "ValueNil")
				}
				c.Obs("nil_args_rejected", 1)
				continue
			}
			v := val()
			c.HashAdd(v)
			everBytes += uint64(len(k) + len(v))
			note(fmt.Sprintf("Upsert(%x,len%d)", k, len(v)))
			expect("Upsert", m.Upsert(k, v), "nil")
			if e != nil && e.tomb {
				sawReadd = true
				c.Obs("readd_after_tombstone", 1)
			}
			model[ks] = &c14ent{val: append([]byte{}, v...)}
		case 5: // Delete
			note(fmt.Sprintf("Delete(%x)", k))
			err := m.Delete(lk(k))
			scribble()
			if e == nil {
				expect("Delete", err, "KeyNotFound")
			} else {
				expect("Delete", err, "nil")
				if !e.tomb {
					sawDelPresent = true
				}
				model[ks] = &c14ent{tomb: true}
			}
		case 6: // DeleteIfExists
			note(fmt.Sprintf("DeleteIfExists(%x)", k))
			expect("DeleteIfExists", m.DeleteIfExists(lk(k)), "nil")
			scribble()
			if e != nil {
				if !e.tomb {
					sawDelPresent = true
				}
				model[ks] = &c14ent{tomb: true}
			}
		case 7: // Tombstone
			note(fmt.Sprintf("Tombstone(%x)", k))
			everBytes += uint64(len(k))
			expect("Tombstone", m.Tombstone(k), "nil")
			if e != nil && !e.tomb {
				sawDelPresent = true
			}
			model[ks] = &c14ent{tomb: true}
		case 8, 9: // Get
			kk := k
			if len(k) == 0 && r.Intn(2) == 0 {
				kk = nil // a nil key is the empty key for the read methods
			}
			v, err := m.Get(lk(kk))
			scribble()
			switch {
			case e == nil:
				expect("Get", err, "KeyNotFound")
			case e.tomb:
				expect("Get", err, "KeyTombstoned")
			default:
				expect("Get", err, "nil")
				if !bytes.Equal(v, e.val) || v == nil {
					c.Violate("memstore/Get/value", "Get(%x) = %s want %s\ntrace: %v", k, fw.Hex(v), fw.Hex(e.val), trace)
				}
			}
		case 10: // Contains
			c.Obs("calls_compared", 1)
			want := e != nil && !e.tomb
			got := m.Contains(lk(k))
			scribble()
			if got != want {
				c.Violate("memstore/Contains", "Contains(%x)=%v want %v\ntrace: %v", k, got, want, trace)
			}
		case 11: // IsTombstoned
			c.Obs("calls_compared", 1)
			want := e != nil && e.tomb
			got := m.IsTombstoned(lk(k))
			scribble()
			if got != want {
				c.Violate("memstore/IsTombstoned", "IsTombstoned(%x)=%v want %v\ntrace: %v", k, got, want, trace)
			}
		case 12: // Size + estimate
			c.Obs("calls_compared", 1)
			if m.Size() != len(model) {
				c.Violate("memstore/Size", "Size()=%d want %d (tombstones count)\ntrace: %v", m.Size(), len(model), trace)
			}
			if est := m.EstimatedSizeInBytes(); est > 4*everBytes+64 {
				c.Violate("memstore/estimate-wrapped", "EstimatedSizeInBytes()=%d although only %d bytes were ever passed in\ntrace: %v", est, everBytes, trace)
			}
		case 13: // in-memory iterator
			c14CheckIter(c, m.SStableIterator(), model, true, "SStableIterator", trace)
		}
	}
	if est := m.EstimatedSizeInBytes(); est > 4*everBytes+64 {
		c.Violate("memstore/estimate-wrapped", "EstimatedSizeInBytes()=%d although only %d bytes were ever passed in\ntrace: %v", est, everBytes, trace)
	}
	for i := range shared {
		if string(shared[i]) != sharedCopy[i] {
			c.Violate("memstore/wrote-into-callers-slice", "a value slice handed to Add/Upsert was modified by the memstore: %q became %q\ntrace: %v", sharedCopy[i], shared[i], trace)
		}
	}
	if m.Size() != len(model) {
		c.Violate("memstore/Size", "Size()=%d want %d\ntrace: %v", m.Size(), len(model), trace)
	}
	c14CheckIter(c, m.SStableIterator(), model, true, "SStableIterator", trace)
	if c.Violated() {
		return
	}
	// ---- flush and read back through the real reader
	withTomb := r.Intn(2) == 0
	c.HashAdd("flush", withTomb)
	opts := []sstables.WriterOption{sstables.WriteBasePath(c.Dir), sstables.WithKeyComparator(skiplist.BytesComparator{})}
	if r.Intn(2) == 0 {
		opts = append(opts, sstables.WriteBufferSizeBytes(gen.Pick(r, 16, 37, 4096)))
	}
	if r.Intn(3) == 0 {
		opts = append(opts, sstables.DataCompressionType(r.Intn(4)), sstables.IndexCompressionType(r.Intn(4)))
	}
	// the caller's bloom filter settings: lax probabilities and small / large expectations are valid options
	if r.Intn(3) == 0 {
		opts = append(opts, sstables.BloomFalsePositiveProbability(gen.Pick(r, 0.01, 0.5, 0.7, 0.9)))
		c.Obs("flushes_with_bloom_options", 1)
	}
	if r.Intn(5) == 0 {
		opts = append(opts, sstables.BloomExpectedNumberOfElements(uint64(gen.Pick(r, 10, 1000000))))
	}
	var err error
	if withTomb {
		err = m.FlushWithTombstones(opts...)
	} else {
		err = m.Flush(opts...)
	}
	if err != nil {
		c.Violate("memstore/flush-error", "flush(withTombstones=%v) failed: %v", withTomb, err)
		return
	}
	flushed = true
	rd, err := sstables.NewSSTableReader(sstables.ReadBasePath(c.Dir), sstables.ReadWithKeyComparator(skiplist.BytesComparator{}))
	if err != nil {
		c.Violate("memstore/flush-unreadable", "table written by flush(withTombstones=%v) cannot be opened: %v", withTomb, err)
		return
	}
	defer rd.Close()
	it, err := rd.Scan()
	if err != nil {
		c.Violate("memstore/flush-scan-error", "Scan: %v", err)
		return
	}
	name := "Flush"
	if withTomb {
		name = "FlushWithTombstones"
	}
	c14CheckIter(c, it, model, withTomb, name, trace)
	for ks, e := range model {
		// membership through the table's bloom filter: every record that was flushed must be a member
		inTable := !e.tomb || withTomb
		if has, err := rd.Contains([]byte(ks)); err != nil || has != inTable {
			c.Violate("memstore/flush-contains", "%s: Contains(%x)=(%v,%v) on the flushed table, want %v", name, ks, has, err, inTable)
		}
		v, err := rd.Get([]byte(ks))
		switch {
		case e.tomb && !withTomb:
			if !errors.Is(err, sstables.NotFound) {
				c.Violate("memstore/flush-has-tombstoned-key", "%s: tombstoned key %x is in the table (%s,%v)", name, ks, fw.Hex(v), err)
			}
		case e.tomb:
			if err != nil || v != nil {
				c.Violate("memstore/flush-tombstone-not-nil", "%s: tombstoned key %x reads (%s,%v) want (nil,nil)", name, ks, fw.Hex(v), err)
			}
			c.Obs("tombstones_flushed_as_nil", 1)
		default:
			if err != nil || v == nil || !bytes.Equal(v, e.val) {
				c.Violate("memstore/flush-value", "%s: key %x reads (%s,%v) want %s", name, ks, fw.Hex(v), err, fw.Hex(e.val))
			}
		}
	}
	c.Obs("flush_readbacks", 1)
	if sawDelPresent && sawReadd && flushed {
		c.Nontrivial()
	}
	if c.Idx%500 == 0 {
		c.Sample(map[string]any{"universe": len(universe), "calls": steps, "flush_with_tombstones": withTomb, "first_calls": trace[:min(len(trace), 8)]})
	}
}

func c14CheckIter(c *fw.Case, it sstables.SSTableIteratorI, model map[string]*c14ent, withTomb bool, name string, trace []string) {
	var keys []string
	for k, e := range model {
		if withTomb || !e.tomb {
			keys = append(keys, k)
		}
	}
	sort.Strings(keys)
	i := 0
	// what the iterator hands out is kept (not copied) and looked at again when the iteration is over: a consumer that
	// collects the pairs, or compares each key with the previous one, relies on them staying what they were
	var keptK, keptV [][]byte
	defer func() {
		for j := range keptK {
			if j < len(keys) && string(keptK[j]) != keys[j] {
				c.Violate("memstore/"+name+"/iter-key-changed-after-it-was-returned", "%s: entry %d was returned as key %x; after the iteration the same slice reads %x", name, j, keys[j], keptK[j])
				return
			}
			if j < len(keys) && !model[keys[j]].tomb && !bytes.Equal(keptV[j], model[keys[j]].val) {
				c.Violate("memstore/"+name+"/iter-value-changed-after-it-was-returned", "%s: the value returned for key %x reads %s after the iteration", name, keys[j], fw.Hex(keptV[j]))
				return
			}
		}
	}()
	for {
		k, v, err := it.Next()
		if err != nil {
			if !errors.Is(err, sstables.Done) {
				c.Violate("memstore/"+name+"/iter-error", "%s: iterator error %v", name, err)
				return
			}
			break
		}
		keptK, keptV = append(keptK, k), append(keptV, v)
		// a consumer may append to a key it was handed: whatever capacity the slice has beyond its length is the
		// consumer's to use — it must not be the memory the store keeps a value in
		if cap(k) > len(k) {
			spare := k[len(k):cap(k)]
			for j := range spare {
				spare[j] = 0xEE
			}
			c.Obs("iterator_keys_with_spare_capacity_written_to", 1)
		}
		if i >= len(keys) {
			c.Violate("memstore/"+name+"/iter-extra", "%s: extra entry %x", name, k)
			return
		}
		if string(k) != keys[i] {
			c.Violate("memstore/"+name+"/iter-order", "%s: entry %d is key %x want %x\ntrace: %v", name, i, k, keys[i], trace)
			return
		}
		e := model[keys[i]]
		if e.tomb {
			if v != nil {
				c.Violate("memstore/"+name+"/iter-tombstone-not-nil", "%s: tombstoned key %x iterates with value %s", name, k, fw.Hex(v))
			}
		} else if v == nil || !bytes.Equal(v, e.val) {
			c.Violate("memstore/"+name+"/iter-value", "%s: key %x iterates with %s want %s", name, k, fw.Hex(v), fw.Hex(e.val))
		}
		i++
	}
	if i != len(keys) {
		c.Violate("memstore/"+name+"/iter-short", "%s: iterator ended after %d of %d entries", name, i, len(keys))
	}
	c.Obs("calls_compared", 1)
}
