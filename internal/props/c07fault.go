package props

import (
	"bytes"
	"encoding/binary"
	"encoding/json"
	"flag"
	"fmt"
	"math/rand"
	"os"
	"os/signal"
	"path/filepath"
	"sort"
	"strings"
	"syscall"

	"github.com/thomasjungblut/go-sstables/wal"

	"verif/internal/fw"
	"verif/internal/gen"
)

// C07 (d) — WAL programs with WRITE FAULTS. The statement's guarantees (replay succeeds, delivers a prefix of the
// appended sequence, contains every record whose synchronous append had returned) are observed on logs whose
// appending process met a failing write(2): RLIMIT_FSIZE is lowered in a sub-process so that the kernel refuses
// the write that would cross the limit (EFBIG, SIGXFSZ ignored) — for a window of 1..3 calls (transient) or as a
// per-file cap for the rest of the program (persistent). The program goes on appending and rotating after the
// failure (retries included); nothing is killed. Records carry a sequence number, so the replayed list can be
// compared with the list of ATTEMPTED appends: it must be a gap-free prefix of it and must contain every
// acknowledged synchronous append, whatever the calls after the failure returned.

type walFaultOut struct {
	Cfg        string   `json:"cfg"`
	Sig        string   `json:"sig,omitempty"`
	Detail     string   `json:"detail,omitempty"`
	FaultSeen  bool     `json:"fault_seen"`
	Attempted  int      `json:"attempted"`
	AckedAfter int      `json:"acked_after_fault"`
	FailedOps  int      `json:"failed_ops"`
	Replayed   int      `json:"replayed"`
	Rotations  int      `json:"rotations_attempted_after_fault"`
	BigDirect  bool     `json:"fault_in_record_larger_than_buffer"`
	Tail       []string `json:"tail,omitempty"`
}

func seqOf(b []byte) int64 {
	if len(b) < 4 {
		return -1
	}
	return int64(binary.BigEndian.Uint32(b))
}

func walFault(args []string) int {
	fs := flag.NewFlagSet("walfault", flag.ExitOnError)
	dir := fs.String("dir", "", "")
	seed := fs.Int64("seed", 1, "")
	n := fs.Int("n", 10, "")
	_ = fs.Parse(args)
	signal.Ignore(syscall.SIGXFSZ)
	enc := json.NewEncoder(os.Stdout)
	var oldLim syscall.Rlimit
	_ = syscall.Getrlimit(syscall.RLIMIT_FSIZE, &oldLim)
	for p := 0; p < *n; p++ {
		r := rand.New(rand.NewSource(*seed*1009 + int64(p)))
		d := filepath.Join(*dir, fmt.Sprintf("p%d", p))
		_ = os.MkdirAll(d, 0755)
		limit := gen.Pick(r, uint64(300), 1500, 1<<20)
		wbuf := gen.Pick(r, 64, 64, 512, 4096)
		comp := gen.Pick(r, 0, 0, 1, 2, 3)
		persistent := r.Intn(3) == 0
		steps := 8 + r.Intn(60)
		faultAt := r.Intn(steps)
		window := 1 + r.Intn(3)
		out := walFaultOut{Cfg: fmt.Sprintf("limit=%d wbuf=%d comp=%d persistent=%v steps=%d faultAt=%d window=%d", limit, wbuf, comp, persistent, steps, faultAt, window)}
		opts, err := walOpts(d, limit, wbuf, comp)
		var w wal.WriteAheadLogI
		if err == nil {
			w, err = wal.NewWriteAheadLog(opts)
		}
		if err != nil {
			out.Sig, out.Detail = "harness/walfault-create", err.Error()
			_ = enc.Encode(out)
			continue
		}
		newest := func() int64 {
			ents, _ := os.ReadDir(d)
			var names []string
			for _, e := range ents {
				if strings.HasSuffix(e.Name(), ".wal") {
					names = append(names, e.Name())
				}
			}
			sort.Strings(names)
			if len(names) == 0 {
				return 0
			}
			st, err := os.Stat(filepath.Join(d, names[len(names)-1]))
			if err != nil {
				return 0
			}
			return st.Size()
		}
		var attempted [][]byte
		var failed []bool   // per attempt: the call returned an error (it may or may not have reached the log)
		var syncAcked []int // indexes into attempted
		var prog []string
		armed := false
		seq := uint32(0)
		var retry []byte
		for s := 0; s < steps; s++ {
			if s == faultAt {
				l := uint64(newest()) + uint64(r.Intn(400))
				if persistent {
					l = uint64(120 + r.Intn(700))
				}
				if syscall.Setrlimit(syscall.RLIMIT_FSIZE, &syscall.Rlimit{Cur: l, Max: oldLim.Max}) == nil {
					armed = true
					prog = append(prog, fmt.Sprintf("[file size limit %d]", l))
				}
			}
			if armed && !persistent && s == faultAt+window {
				_ = syscall.Setrlimit(syscall.RLIMIT_FSIZE, &oldLim)
				armed = false
				prog = append(prog, "[limit lifted]")
			}
			x := r.Intn(12)
			if x == 0 || (out.FaultSeen && x < 3) {
				_, err := w.Rotate()
				prog = append(prog, fmt.Sprintf("Rotate->%v", err != nil))
				if out.FaultSeen {
					out.Rotations++
				}
				if err != nil {
					out.FailedOps++
					if strings.Contains(err.Error(), "file too large") {
						out.FaultSeen = true
					}
				}
				continue
			}
			var rec []byte
			if retry != nil && r.Intn(2) == 0 {
				rec = retry // the caller repeats the call that failed (same content, it is one more attempt)
			} else {
				size := r.Intn(90)
				switch r.Intn(8) {
				case 0:
					size = wbuf + r.Intn(3*wbuf) // larger than the write buffer: written around it
				case 1:
					size = int(min(limit, 2000)) + r.Intn(200)
				}
				rec = make([]byte, 4, 4+size)
				binary.BigEndian.PutUint32(rec, seq)
				seq++
				rec = append(rec, gen.Bytes(r, size)...)
			}
			retry = nil
			sync := x < 7
			idx := len(attempted)
			attempted = append(attempted, rec)
			failed = append(failed, false)
			if sync {
				err = w.AppendSync(rec)
			} else {
				err = w.Append(rec)
			}
			prog = append(prog, fmt.Sprintf("%s(#%d,%dB)->%v", map[bool]string{true: "AppendSync", false: "Append"}[sync], idx, len(rec), err != nil))
			if err != nil {
				failed[idx] = true
				out.FailedOps++
				if strings.Contains(err.Error(), "file too large") {
					if !out.FaultSeen && len(rec) > wbuf {
						out.BigDirect = true
					}
					out.FaultSeen = true
				}
				retry = rec
			} else {
				if sync {
					syncAcked = append(syncAcked, idx)
				}
				if out.FaultSeen {
					out.AckedAfter++
				}
			}
		}
		cerr := w.Close()
		_ = syscall.Setrlimit(syscall.RLIMIT_FSIZE, &oldLim)
		prog = append(prog, fmt.Sprintf("Close->%v", cerr != nil))
		out.Attempted = len(attempted)
		out.Tail = tailS(prog, 14)
		// fresh replay
		var got [][]byte
		ropts, err := wal.NewWriteAheadLogOptions(wal.BasePath(d))
		if err == nil {
			var rp wal.WriteAheadLogReplayI
			rp, err = wal.NewReplayer(ropts)
			if err == nil {
				err = rp.Replay(func(rec []byte) error {
					got = append(got, append([]byte{}, rec...))
					return nil
				})
			}
		}
		out.Replayed = len(got)
		listing := func() string {
			ents, _ := os.ReadDir(d)
			var l []string
			for _, e := range ents {
				if st, err := e.Info(); err == nil {
					l = append(l, fmt.Sprintf("%s(%d)", e.Name(), st.Size()))
				}
			}
			return strings.Join(l, " ")
		}
		switch {
		case err != nil:
			out.Sig = "wal-fault/replay-fails/" + errClass(err.Error(), d)
			out.Detail = fmt.Sprintf("Replay fails after a program whose appender met a failing write and went on: %v\nfiles: %s", err, listing())
		default:
			// The replayed list must be the attempted list minus attempts that FAILED (a failed call may or may not
			// have reached the log), cut off at some point: an attempt that returned nil may only be missing if
			// everything after it is missing too, and no acknowledged synchronous append may be missing at all.
			ai := 0
			for gi := range got {
				for ai < len(attempted) && !bytes.Equal(attempted[ai], got[gi]) && failed[ai] {
					ai++
				}
				if ai >= len(attempted) || !bytes.Equal(attempted[ai], got[gi]) {
					out.Sig = "wal-fault/replay-is-no-gap-free-prefix-of-the-appends"
					what := "is not among the remaining attempts"
					if ai < len(attempted) {
						what = fmt.Sprintf("comes where attempt #%d (seq %d, returned nil) is due: that record is missing although a later one is there", ai, seqOf(attempted[ai]))
					}
					out.Detail = fmt.Sprintf("replayed record %d of %d (seq %d, %d bytes) %s\nfiles: %s", gi, len(got), seqOf(got[gi]), len(got[gi]), what, listing())
					break
				}
				ai++
			}
			if out.Sig == "" {
				for _, i := range syncAcked {
					if i >= ai {
						out.Sig = "wal-fault/acknowledged-sync-append-lost"
						out.Detail = fmt.Sprintf("AppendSync #%d had returned nil, replay ends before it (%d records, next expected attempt #%d)\nfiles: %s", i, len(got), ai, listing())
						break
					}
				}
			}
		}
		_ = enc.Encode(out)
		_ = os.RemoveAll(d)
	}
	return 0
}

func c07Fault(c *fw.Case, j int) {
	seed := fw.CaseSeed("C07-fault", c.Seed, j)
	c.HashAdd("walfault", seed)
	const perProc = 25
	res := fw.RunSub("", 200, nil, c.Dir, "walfault", "-dir", c.Dir, "-seed", fmt.Sprint(seed), "-n", fmt.Sprint(perProc))
	if res.TimedOut {
		c.Inconclusive("WAL fault programs: watchdog expired")
		return
	}
	lines := bytes.Split(bytes.TrimSpace(res.Stdout), []byte("\n"))
	seen := 0
	for _, ln := range lines {
		var o walFaultOut
		if json.Unmarshal(ln, &o) != nil {
			continue
		}
		seen++
		c.Obs("wal_fault_programs", 1)
		if o.FaultSeen {
			c.Obs("wal_fault_programs_with_a_failed_write", 1)
			c.Obs("wal_calls_after_a_failed_write_that_returned_nil", int64(o.AckedAfter))
			c.Obs("wal_rotations_attempted_after_a_failed_write", int64(o.Rotations))
			if o.BigDirect {
				c.Obs("wal_failed_write_inside_a_record_larger_than_the_buffer", 1)
			}
		}
		if o.Sig != "" {
			c.Violate(o.Sig, "%s\n%s\nlast calls: %v", o.Cfg, o.Detail, o.Tail)
		}
	}
	if res.Exit != 0 || seen != perProc {
		c.Violate("wal-fault/process-died/"+fw.PanicSite(res.Stderr), "the process running the WAL fault programs ended abnormally (exit %d, %d of %d programs reported)\n%s", res.Exit, seen, perProc, cutS(res.Stderr, 800))
		return
	}
	c.Nontrivial()
	if j%10 == 0 && len(lines) > 0 {
		var o walFaultOut
		_ = json.Unmarshal(lines[0], &o)
		c.Sample(map[string]any{"kind": "wal-fault-program", "config": o.Cfg, "attempted": o.Attempted, "replayed": o.Replayed, "failed_calls": o.FailedOps, "last_calls": o.Tail})
	}
}
