package props

import (
	"bytes"
	"errors"
	"fmt"
	"io"
	"math/rand"
	"os"
	"path/filepath"
	"strings"
	"sync"

	"github.com/kaitai-io/kaitai_struct_go_runtime/kaitai"
	"github.com/thomasjungblut/go-sstables/kaitai/gokaitai"
	"github.com/thomasjungblut/go-sstables/recordio"

	"verif/internal/fw"
	"verif/internal/gen"
	"verif/internal/rio"
)

// C20 — the published Kaitai schema decodes every written file to the same records.

// the enum constant of the generated reader that names the same algorithm as the writer's code
// (lzw is checked through the published .ksy file only, so that the harness also builds against a tree
// whose generated reader has no constant for it)
var c20Enum = map[int]gokaitai.RecordioV4_Compression{
	recordio.CompressionTypeNone:   gokaitai.RecordioV4_Compression__None,
	recordio.CompressionTypeGZIP:   gokaitai.RecordioV4_Compression__Gzip,
	recordio.CompressionTypeSnappy: gokaitai.RecordioV4_Compression__Snappy,
}

// c20SchemaEnum reads the compression enum (code -> name) out of the published schema file.
func c20SchemaEnum() (map[int]string, error) {
	dir := os.Getenv("VERIF_REPO_DIR")
	if dir == "" {
		dir = "/repo"
	}
	b, err := os.ReadFile(filepath.Join(dir, "kaitai", "recordio_v4.ksy"))
	if err != nil {
		return nil, err
	}
	out := map[int]string{}
	in := false
	for _, ln := range strings.Split(string(b), "\n") {
		t := strings.TrimSpace(ln)
		if strings.HasPrefix(t, "compression:") && strings.HasPrefix(ln, "  ") && !strings.HasPrefix(ln, "   ") {
			in = true
			continue
		}
		if in {
			var code int
			var name string
			if n, _ := fmt.Sscanf(t, "%d: %s", &code, &name); n == 2 {
				out[code] = name
			} else if t != "" {
				break
			}
		}
	}
	return out, nil
}

func init() {
	fw.Register(&fw.Prop{
		ID: "C20",
		Meta: func(tier string) fw.Meta {
			n := 1200
			if tier == "thorough" {
				n = 30000
			}
			return fw.Meta{N: n, Level: "exploration", Chunk: 50, CaseTimeoutS: 120, MinNT: 200,
				Rule:        "one case = one file written by the real writer (0..25 records: nil, empty, random, compressible, marker-laden, a few with stored length >= 16 KiB / >= 2 MiB varint groups) under each of the 4 compression types, one file in four by a program that rolls records back (seek to a written record's offset after 0..2 further, mostly nil, records and rewrite it, often as the last action before Close); differential oracle: Kaitai-generated reader vs native sequential reader vs the harness's independent layout parser: parse succeeds, same record count, same nil flags, payload == stored bytes, decompress(stored) == native record, header compression code maps to the enum constant of the same algorithm. Non-trivial: compressed file with >=1 nil and >=1 empty record, or any file with >=3 records; distinct by content hash Three of four rollback programs hand the writer a file handle instead of a path (fresh, recycled after Truncate with a non-zero offset, or opened with O_APPEND).",
				MinObs:      map[string]int64{"records_compared": 5000, "nil_records_in_compressed_files": 100, "empty_records_in_compressed_files": 100, "files_gzip": 50, "files_snappy": 50, "files_lzw": 50, "files_none": 50, "three_group_lengths": 5, "rollbacks": 100},
				Assumptions: []string{"the Go reader generated from the schema (kaitai/gokaitai) stands for the schema; kaitai-struct-compiler is not available offline"},
			}
		},
		Run: runC20,
	})
}

// c20Concurrent: every 6th case additionally writes three files AT THE SAME TIME from three goroutines (independent
// writers on different files) and decodes each with the three readers: what one writer emits must not depend on
// what other writers are doing.
func c20Concurrent(c *fw.Case, comp int) {
	type out struct {
		recs [][]byte
		err  error
	}
	res := make([]out, 3)
	var wg sync.WaitGroup
	for g := 0; g < 3; g++ {
		wg.Add(1)
		seed := c.R.Int63()
		go func(g int, seed int64) {
			defer wg.Done()
			r := rand.New(rand.NewSource(seed))
			var recs [][]byte
			for i := 0; i < 400; i++ {
				switch r.Intn(4) {
				case 0:
					recs = append(recs, nil)
				case 1:
					recs = append(recs, []byte{})
				default:
					recs = append(recs, gen.Bytes(r, 1+r.Intn(40)))
				}
			}
			_, err := writeRio(filepath.Join(c.Dir, fmt.Sprintf("conc%d.rio", g)), comp, 4096, recs)
			res[g] = out{recs, err}
		}(g, seed)
	}
	wg.Wait()
	c.Obs("files_written_while_other_writers_were_active", 3)
	for g := 0; g < 3; g++ {
		if res[g].err != nil {
			c.Violate("harness/write", "concurrent writer %d: %v", g, res[g].err)
			return
		}
		img, err := os.ReadFile(filepath.Join(c.Dir, fmt.Sprintf("conc%d.rio", g)))
		if err != nil {
			c.Violate("harness/read", "%v", err)
			return
		}
		pf, perr := rio.Parse(img)
		k := gokaitai.NewRecordioV4()
		kerr := func() (err error) {
			defer func() {
				if p := recover(); p != nil {
					err = fmt.Errorf("panic: %v", p)
				}
			}()
			if perr != nil {
				return fmt.Errorf("not attempted: the layout is already broken (%v)", perr) // (a wild length would make the generated reader allocate without bound)
			}
			return k.Read(kaitai.NewStream(bytes.NewReader(img)), nil, k)
		}()
		bad := ""
		switch {
		case perr != nil:
			bad = fmt.Sprintf("layout parser: %v", perr)
		case len(pf.Recs) != len(res[g].recs) || pf.Tail != len(img):
			bad = fmt.Sprintf("layout parser sees %d records (+%d trailing bytes), written %d", len(pf.Recs), len(img)-pf.Tail, len(res[g].recs))
		case kerr != nil:
			bad = fmt.Sprintf("Kaitai reader: %v", kerr)
		case len(k.Record) != len(res[g].recs):
			bad = fmt.Sprintf("Kaitai reader sees %d records, written %d", len(k.Record), len(res[g].recs))
		}
		if bad == "" {
			for i, kr := range k.Record {
				if (kr.RecordNil == 1) != (res[g].recs[i] == nil) {
					bad = fmt.Sprintf("record %d: nil flag %d, written nil=%v", i, kr.RecordNil, res[g].recs[i] == nil)
					break
				}
			}
		}
		if bad != "" {
			c.Violate("recordio/file-written-while-other-writers-were-active", "compression=%d file %d of 3 written concurrently: %s", comp, g, bad)
			return
		}
	}
}

// c20CheckFile decodes one written file with the three readers and compares with what was written.
func c20CheckFile(path string, recs [][]byte) string {
	img, err := os.ReadFile(path)
	if err != nil {
		return err.Error()
	}
	pf, perr := rio.Parse(img)
	if perr != nil {
		return fmt.Sprintf("layout parser: %v", perr)
	}
	if len(pf.Recs) != len(recs) || pf.Tail != len(img) {
		return fmt.Sprintf("layout parser sees %d records (+%d trailing bytes), written %d", len(pf.Recs), len(img)-pf.Tail, len(recs))
	}
	k := gokaitai.NewRecordioV4()
	kerr := func() (err error) {
		defer func() {
			if p := recover(); p != nil {
				err = fmt.Errorf("panic: %v", p)
			}
		}()
		return k.Read(kaitai.NewStream(bytes.NewReader(img)), nil, k)
	}()
	if kerr != nil {
		return fmt.Sprintf("Kaitai reader: %v", kerr)
	}
	if len(k.Record) != len(recs) {
		return fmt.Sprintf("Kaitai reader sees %d records, written %d", len(k.Record), len(recs))
	}
	rd, err := recordio.NewFileReaderWithPath(path)
	if err == nil {
		err = rd.Open()
	}
	if err != nil {
		return "native reader: " + err.Error()
	}
	defer rd.Close()
	for i, kr := range k.Record {
		got, err := rd.ReadNext()
		if err != nil || !sameRec(got, recs[i]) {
			return fmt.Sprintf("native reader, record %d: (%s,%v) written %s", i, fw.Hex(got), err, fw.Hex(recs[i]))
		}
		if (kr.RecordNil == 1) != (recs[i] == nil) {
			return fmt.Sprintf("Kaitai reader, record %d: nil flag %d, written nil=%v", i, kr.RecordNil, recs[i] == nil)
		}
	}
	if _, err := rd.ReadNext(); !errors.Is(err, io.EOF) {
		return fmt.Sprintf("native reader: %v instead of EOF after the last record", err)
	}
	return ""
}

// c20Interleaved: a writer is closed TWICE (the second Close must fail and do nothing), then two writers are open side
// by side and written to alternately from one goroutine; both files are decoded with the three readers.
func c20Interleaved(c *fw.Case, comp int) {
	r := c.R
	w0, err := recordio.NewFileWriter(recordio.Path(filepath.Join(c.Dir, "w0.rio")), recordio.CompressionType(comp))
	if err == nil {
		err = w0.Open()
	}
	if err != nil {
		c.Violate("harness/write", "%v", err)
		return
	}
	_, _ = w0.Write([]byte("first"))
	if err := w0.Close(); err != nil {
		c.Violate("harness/write", "Close: %v", err)
		return
	}
	if err := w0.Close(); err == nil {
		c.Obs("second_close_returned_nil", 1)
	}
	c.Obs("writers_closed_twice", 1)
	var ws [2]recordio.WriterI
	var recs [2][][]byte
	for i := range ws {
		o := []recordio.FileWriterOption{recordio.Path(filepath.Join(c.Dir, fmt.Sprintf("side%d.rio", i))), recordio.CompressionType(comp)}
		if r.Intn(2) == 0 {
			o = append(o, recordio.BufferSizeBytes(gen.Pick(r, 64, 4096)))
		}
		w, err := recordio.NewFileWriter(o...)
		if err == nil {
			err = w.Open()
		}
		if err != nil {
			c.Violate("harness/write", "%v", err)
			return
		}
		ws[i] = w
	}
	for n := 0; n < 60; n++ {
		i := r.Intn(2)
		var rec []byte
		switch r.Intn(4) {
		case 0:
			rec = nil
		case 1:
			rec = []byte{}
		default:
			rec = gen.Payload(r, 120)
		}
		if _, err := ws[i].Write(rec); err != nil {
			c.Violate("harness/write", "%v", err)
			return
		}
		recs[i] = append(recs[i], rec)
	}
	for i := range ws {
		if err := ws[i].Close(); err != nil {
			c.Violate("harness/write", "Close: %v", err)
			return
		}
	}
	for i := range ws {
		if bad := c20CheckFile(filepath.Join(c.Dir, fmt.Sprintf("side%d.rio", i)), recs[i]); bad != "" {
			c.Violate("recordio/file-written-next-to-another-open-writer", "compression=%d: file %d of two writers that were open side by side (after another writer had been closed twice): %s", comp, i, bad)
			return
		}
	}
	c.Obs("files_written_side_by_side", 2)
}

// c20AcceptedCodes: every compression code the writer accepts must be declared in the published schema.
func c20AcceptedCodes(c *fw.Case) {
	se, err := c20SchemaEnum()
	if err != nil {
		return
	}
	for code := 0; code < 64; code++ {
		w, err := recordio.NewFileWriter(recordio.Path(filepath.Join(c.Dir, "probe.rio")), recordio.CompressionType(code))
		if err != nil {
			continue
		}
		if err := w.Open(); err != nil {
			_ = w.Close()
			continue
		}
		_, werr := w.Write([]byte("probe"))
		cerr := w.Close()
		if werr != nil || cerr != nil {
			continue
		}
		c.Obs("compression_codes_the_writer_accepts", 1)
		if _, ok := se[code]; !ok {
			c.Violate("kaitai/compression-code-unknown-or-misnamed-in-schema/accepted-by-the-writer", "the writer accepts compression code %d and writes a file with it; recordio_v4.ksy declares only %v", code, se)
			return
		}
	}
}

func runC20(c *fw.Case) {
	r := c.R
	comp := c.Idx % 4
	if c.Idx == 0 {
		c20AcceptedCodes(c)
		if c.Violated() {
			return
		}
	}
	if c.Idx%6 == 2 {
		c20Interleaved(c, comp)
		if c.Violated() {
			return
		}
	}
	if c.Idx%6 == 5 {
		c20Concurrent(c, comp)
		if c.Violated() {
			return
		}
	}
	n := r.Intn(26)
	var recs [][]byte
	for i := 0; i < n; i++ {
		switch r.Intn(10) {
		case 0, 1:
			recs = append(recs, nil)
		case 2, 3:
			recs = append(recs, []byte{})
		case 4:
			if r.Intn(6) == 0 {
				// lengths whose varint needs three groups (>= 16384), every second time exactly at a group boundary
				n := 16384 + r.Intn(3000)
				if r.Intn(2) == 0 {
					n = gen.Pick(r, 16383, 16384, 16385, 127, 128, 129)
					c.Obs("record_lengths_exactly_at_a_varint_group_boundary", 1)
				}
				recs = append(recs, gen.Bytes(r, n))
				c.Obs("three_group_lengths", 1)
			} else {
				recs = append(recs, gen.Payload(r, 5000))
			}
		default:
			recs = append(recs, gen.Payload(r, 200))
		}
	}
	for _, x := range recs {
		c.HashAdd(x, x == nil)
	}
	c.HashAdd(comp)
	path := filepath.Join(c.Dir, "f.rio")
	// one file in four is written by a program that ROLLS BACK: after some records (often the last one) 0..2 further
	// records (mostly nil) are written, then the writer seeks back to the record's offset and writes a replacement
	// (what the table writer does after a failed index append); the file must hold exactly the surviving records
	rollback := r.Intn(4) == 0
	if !rollback {
		if _, err := writeRio(path, comp, gen.Pick(r, 64, 4096, 0), recs); err != nil {
			c.Violate("harness/write", "%v", err)
			return
		}
	} else {
		c.Obs("files_written_with_rollbacks", 1)
		opts := []recordio.FileWriterOption{recordio.Path(path), recordio.CompressionType(comp)}
		// three programs in four hand the writer a file HANDLE instead of a path: a fresh one, one that was used as a
		// scratch file before (emptied with Truncate, so its offset is not 0), or one opened for appending
		if how := r.Intn(4); how != 0 {
			var f *os.File
			var ferr error
			switch how {
			case 1:
				f, ferr = os.Create(path)
			case 2:
				if f, ferr = os.Create(path); ferr == nil {
					_, _ = f.Write(gen.Bytes(r, 1+r.Intn(300)))
					ferr = f.Truncate(0)
				}
			default:
				f, ferr = os.OpenFile(path, os.O_WRONLY|os.O_CREATE|os.O_APPEND, 0644)
			}
			if ferr != nil {
				c.Violate("harness/write", "%v", ferr)
				return
			}
			opts[0] = recordio.File(f)
			c.Obs("writers_given_a_file_handle_"+[]string{"", "fresh", "recycled_after_truncate", "opened_for_appending"}[how], 1)
		}
		if wb := gen.Pick(r, 64, 4096, 0); wb != 0 {
			opts = append(opts, recordio.BufferSizeBytes(wb))
		}
		w, err := recordio.NewFileWriter(opts...)
		if err == nil {
			err = w.Open()
		}
		if err != nil {
			c.Violate("harness/write", "%v", err)
			return
		}
		for i := range recs {
			pre := w.Size() // where the record is about to start: the other way a caller remembers a rollback target
			o, err := w.Write(recs[i])
			if err == nil && r.Intn(2) == 0 {
				o = pre
			}
			if err == nil && r.Intn(6) == 0 {
				// a seek past the end must be refused and must change nothing: the program simply goes on
				if e := w.Seek(w.Size() + 1 + uint64(r.Intn(40))); e == nil {
					c.Violate("recordio/seek-past-the-end-accepted", "Seek(Size()+k) returned nil")
					return
				}
				c.Obs("refused_seeks", 1)
			}
			if err == nil && (r.Intn(5) == 0 || (i == len(recs)-1 && r.Intn(2) == 0)) {
				for j := r.Intn(3); j > 0 && err == nil; j-- {
					if r.Intn(4) == 0 {
						_, err = w.Write(gen.Payload(r, 30))
					} else {
						_, err = w.Write(nil)
					}
				}
				if err == nil {
					err = w.Seek(o)
				}
				if err == nil {
					switch r.Intn(4) {
					case 0:
						recs[i] = nil
					case 1:
						recs[i] = []byte{}
					case 2:
						recs[i] = gen.Bytes(r, r.Intn(25))
					}
					c.HashAdd("rollback", i, recs[i], recs[i] == nil)
					_, err = w.Write(recs[i])
					c.Obs("rollbacks", 1)
				}
			}
			if err != nil {
				c.Violate("harness/write", "rollback program: %v", err)
				return
			}
		}
		if err := w.Close(); err != nil {
			c.Violate("harness/write", "rollback program: Close: %v", err)
			return
		}
	}
	img, err := os.ReadFile(path)
	if err != nil {
		c.Violate("harness/read", "%v", err)
		return
	}
	pf, layoutErr := rio.Parse(img)
	if layoutErr == nil && (len(pf.Recs) != len(recs) || pf.Tail != len(img)) {
		layoutErr = fmt.Errorf("%d records and %d trailing bytes, want %d records and none", len(pf.Recs), len(img)-pf.Tail, len(recs))
	}
	if layoutErr != nil && !rollback {
		c.Violate("harness/parse", "independent parser: %v", layoutErr)
		return
	}
	cname := []string{"none", "gzip", "snappy", "lzw"}[comp]
	c.Obs("files_"+cname, 1)
	feat := "/" + cname
	cfg := fmt.Sprintf("compression=%s records=%d bytes=%d", cname, len(recs), len(img))

	// native view
	var native [][]byte
	rd, err := recordio.NewFileReaderWithPath(path)
	if err == nil {
		err = rd.Open()
	}
	if err != nil {
		c.Violate("harness/native-open", "%v", err)
		return
	}
	for {
		b, err := rd.ReadNext()
		if errors.Is(err, io.EOF) {
			break
		}
		if err != nil {
			sig := "harness/native-read"
			if rollback {
				sig = "recordio/rolled-back-file/native-read-error"
			}
			c.Violate(sig, "%v (layout: %v)", err, layoutErr)
			_ = rd.Close()
			return
		}
		native = append(native, b)
	}
	_ = rd.Close()
	if len(native) != len(recs) {
		sig := "harness/native-count"
		if rollback {
			sig = "recordio/rolled-back-file/native-record-count"
		}
		c.Violate(sig, "native reader sees %d records, written %d (layout: %v)", len(native), len(recs), layoutErr)
		return
	}

	k := gokaitai.NewRecordioV4()
	perr := func() (err error) {
		defer func() {
			if p := recover(); p != nil {
				err = fmt.Errorf("panic: %v", p)
			}
		}()
		return k.Read(kaitai.NewStream(bytes.NewReader(img)), nil, k)
	}()
	nils, empties := 0, 0
	for _, x := range recs {
		if x == nil {
			nils++
		} else if len(x) == 0 {
			empties++
		}
	}
	if comp != 0 {
		c.Obs("nil_records_in_compressed_files", int64(nils))
		c.Obs("empty_records_in_compressed_files", int64(empties))
	}
	why := ""
	if comp != 0 && nils > 0 {
		why = "/has-nil-record"
	}
	if rollback {
		why += "/after-rollback"
	}
	if perr != nil {
		c.Violate("kaitai/parse-error"+feat+why, "%s: Kaitai reader failed: %v (records parsed before the failure: %d; native reader: %d records; layout: %v)", cfg, perr, len(k.Record), len(native), layoutErr)
		return
	}
	if layoutErr != nil {
		c.Violate("recordio/rolled-back-file-layout"+feat, "%s: the file written with rollbacks does not consist of exactly the surviving records: %v", cfg, layoutErr)
		return
	}
	if k.FileHeader.Version != 4 {
		c.Violate("kaitai/version", "%s: version %d", cfg, k.FileHeader.Version)
	}
	if want, ok := c20Enum[comp]; ok && k.FileHeader.CompressionType != want {
		c.Violate("kaitai/compression-enum-mismatch"+feat, "%s: header code %d decodes to enum value %d, the generated constant naming %s is %d", cfg, comp, k.FileHeader.CompressionType, cname, want)
		return
	}
	if se, err := c20SchemaEnum(); err != nil {
		c.Inconclusive("cannot read the schema file: " + err.Error())
	} else if se[comp] != cname {
		c.Violate("kaitai/compression-code-unknown-or-misnamed-in-schema"+feat, "%s: the writer emits code %d for %s, recordio_v4.ksy names it %q (enum: %v)", cfg, comp, cname, se[comp], se)
		return
	} else {
		c.Obs("schema_enum_checked", 1)
	}
	if len(k.Record) != len(recs) {
		c.Violate("kaitai/record-count"+feat+why, "%s: Kaitai sees %d records, native reader %d", cfg, len(k.Record), len(recs))
		return
	}
	for i, kr := range k.Record {
		c.Obs("records_compared", 1)
		isNil := native[i] == nil
		if (kr.RecordNil == 1) != isNil {
			c.Violate("kaitai/nil-flag"+feat, "%s: record %d nil flag %d, native nil=%v", cfg, i, kr.RecordNil, isNil)
			return
		}
		stored := img[pf.Recs[i].PayloadOff:pf.Recs[i].End()]
		if !bytes.Equal(kr.Payload, stored) {
			c.Violate("kaitai/payload"+feat, "%s: record %d payload has %d bytes, stored bytes are %d (%s vs %s)", cfg, i, len(kr.Payload), len(stored), fw.Hex(kr.Payload), fw.Hex(stored))
			return
		}
		// stored bytes really are what the native reader decodes
		if !isNil {
			dec := stored
			if comp != 0 {
				cp, _ := recordio.NewCompressorForType(comp)
				d, err := cp.Decompress(stored)
				if err != nil {
					c.Violate("harness/decompress", "%v", err)
					return
				}
				dec = d
			}
			if !bytes.Equal(dec, native[i]) {
				c.Violate("harness/stored-vs-native", "%s: record %d", cfg, i)
				return
			}
		}
	}
	if (comp != 0 && nils > 0 && empties > 0) || len(recs) >= 3 {
		c.Nontrivial()
	}
	if c.Idx%150 == 0 {
		c.Sample(map[string]any{"config": cfg, "nil_records": nils, "empty_records": empties})
	}
}
