package props

import (
	"bytes"
	"errors"
	"fmt"
	"os"
	"path/filepath"
	"sort"
	"sync"

	"github.com/thomasjungblut/go-sstables/recordio"
	rProto "github.com/thomasjungblut/go-sstables/recordio/proto"
	"github.com/thomasjungblut/go-sstables/skiplist"
	"github.com/thomasjungblut/go-sstables/sstables"
	"google.golang.org/protobuf/proto"

	"verif/internal/fw"
	"verif/internal/gen"
)

// C15 — the stream writer holds exactly the accepted writes, ascending, with truthful metadata.

// fault plan shared between the harness and the wrapped writers (clean failures: return an error
// without touching the wrapped writer, like the repository's own failingRecordIoWriter test double)
type faultPlan struct {
	mu       sync.Mutex
	failData bool
	failIdx  bool
	dataHits int
	idxHits  int
}

var errInjected = errors.New("verif: injected I/O failure")

type faultyData struct {
	recordio.WriterI
	p *faultPlan
}

func (f *faultyData) Write(rec []byte) (uint64, error) {
	f.p.mu.Lock()
	fail := f.p.failData
	if fail {
		f.p.failData = false
		f.p.dataHits++
	}
	f.p.mu.Unlock()
	if fail {
		return 0, errInjected
	}
	return f.WriterI.Write(rec)
}

type faultyIndex struct {
	rProto.WriterI
	p *faultPlan
}

func (f *faultyIndex) Write(m proto.Message) (uint64, error) {
	f.p.mu.Lock()
	fail := f.p.failIdx
	if fail {
		f.p.failIdx = false
		f.p.idxHits++
	}
	f.p.mu.Unlock()
	if fail {
		return 0, errInjected
	}
	return f.WriterI.Write(m)
}

func init() {
	fw.Register(&fw.Prop{
		ID: "C15",
		Meta: func(tier string) fw.Meta {
			n := 3000
			if tier == "thorough" {
				n = 80000
			}
			return fw.Meta{N: n, Level: "exploration", Chunk: 50, CaseTimeoutS: 120, MinNT: 300,
				Rule:        "seeded WriteNext programs with arbitrary keys (unsorted, repeated, empty, length-changing around rejected writes, immediate retries of failed keys) x a fault schedule (any call may fail cleanly at the data-append or the index-append step through the tag-guarded writer hook) x 4x4 compression x write buffers {16,37,4096,default} x key comparator (bytes, or a difference-valued one with the same order). Model: list of accepted pairs; each call's result class (ordering error / injected error / nil) is compared, after Close the table is read back (Scan+Get) and MetaData (count, nil count, min/max key, index/data/total bytes vs real file sizes) is compared. Non-trivial: >=1 ordering rejection, >=1 injected fault and >=2 accepted pairs; distinct by program hash",
				MinObs:      map[string]int64{"calls_compared": 30000, "ordering_rejections": 3000, "injected_data_faults": 500, "injected_index_faults": 500, "retries_after_fault": 300, "metadata_checked": 2000, "index_fault_on_nil_value": 20, "programs_with_a_difference_valued_comparator": 300},
				Assumptions: []string{"injected failures are clean (the failing writer is not touched), as in the repository's own failing-writer test double"},
			}
		},
		Run: runC15,
	})
}

// foldCmp orders byte keys ignoring ASCII case: keys that differ only in case are EQUAL
type foldCmp struct{}

func (foldCmp) Compare(a, b []byte) int { return bytes.Compare(asciiLower(a), asciiLower(b)) }

// asciiLower / asciiUpper fold the 26 ASCII letters only (every other byte, valid UTF-8 or not, is left alone)
func asciiLower(b []byte) []byte {
	out := append([]byte{}, b...)
	for i, x := range out {
		if x >= 'A' && x <= 'Z' {
			out[i] = x + 32
		}
	}
	return out
}

func asciiUpper(b []byte) []byte {
	out := append([]byte{}, b...)
	for i, x := range out {
		if x >= 'a' && x <= 'z' {
			out[i] = x - 32
		}
	}
	return out
}

func runC15(c *fw.Case) {
	r := c.R
	plan := &faultPlan{}
	sstables.VerifWriterWrap = func(_ string, idx rProto.WriterI, data recordio.WriterI) (rProto.WriterI, recordio.WriterI) {
		return &faultyIndex{idx, plan}, &faultyData{data, plan}
	}
	defer func() { sstables.VerifWriterWrap = nil }()

	dataComp, idxComp := r.Intn(4), r.Intn(4)
	wbuf := gen.Pick(r, 16, 37, 4096, 0)
	// the comparator contract is <0 / 0 / >0: one program in three orders its keys with a comparator that yields the same
	// order as bytes.Compare but returns differences (memcmp style), not -1/0/+1
	var keyCmp skiplist.Comparator[[]byte] = skiplist.BytesComparator{}
	fold := false
	switch r.Intn(6) {
	case 0, 1:
		keyCmp = memcmpCmp{}
		c.Obs("programs_with_a_difference_valued_comparator", 1)
	case 2:
		// a comparator whose equality is COARSER than byte equality (ASCII case is ignored): "the same key" is what the
		// comparator says, so "Apple" after "apple" is a duplicate
		keyCmp = foldCmp{}
		fold = true
		c.Obs("programs_with_a_case_folding_comparator", 1)
	}
	opts := []sstables.WriterOption{sstables.WriteBasePath(c.Dir), sstables.WithKeyComparator(keyCmp),
		sstables.DataCompressionType(dataComp), sstables.IndexCompressionType(idxComp)}
	if wbuf != 0 {
		opts = append(opts, sstables.WriteBufferSizeBytes(wbuf))
	}
	cfg := fmt.Sprintf("data=%d index=%d wbuf=%d cmp=%T", dataComp, idxComp, wbuf, keyCmp)
	c.HashAdd(cfg)
	w, err := sstables.NewSSTableStreamWriter(opts...)
	if err != nil {
		c.Violate("harness/writer", "%v", err)
		return
	}
	if err := w.Open(); err != nil {
		c.Violate("sstable-writer/open-error", "%s: %v", cfg, err)
		return
	}
	universe := gen.AscendingKeys(r, 4+r.Intn(30), gen.Pick(r, 0, 1, 3, 4))
	if r.Intn(3) == 0 {
		universe[0] = []byte{}
	}
	if fold {
		// distinct and ascending under the folding comparator; letters are added so that case variants exist
		seen := map[string]bool{}
		var u [][]byte
		for i, k := range universe {
			k = asciiLower(append(append([]byte{}, k...), byte('a'+i%26)))
			if !seen[string(k)] {
				seen[string(k)] = true
				u = append(u, k)
			}
		}
		sort.Slice(u, func(i, j int) bool { return bytes.Compare(u[i], u[j]) < 0 })
		universe = u
	}
	var accepted []kv
	var trace []string
	steps := r.Intn(50)
	cursor := 0
	ordRej, faults := 0, 0
	faultRate := gen.Pick(r, 0.0, 0.1, 0.3)
	var retry *kv
	reuseKeyBuf := r.Intn(2) == 0
	keyBuf := make([]byte, 0, 64)
	if reuseKeyBuf {
		c.Obs("programs_reusing_one_key_buffer", 1)
	}
	for s := 0; s < steps; s++ {
		var k, v []byte
		retrying := false
		if retry != nil && r.Intn(3) > 0 {
			k, v = retry.k, retry.v
			retrying = true
		} else {
			switch r.Intn(10) {
			case 0, 1: // arbitrary position (often non-ascending)
				k = universe[r.Intn(len(universe))]
			case 2: // repeat the last accepted key
				if len(accepted) > 0 {
					k = accepted[len(accepted)-1].k
				} else {
					k = universe[0]
				}
			default: // mostly ascending walk
				cursor += r.Intn(3)
				if cursor >= len(universe) {
					cursor = len(universe) - 1
				}
				k = universe[cursor]
				cursor++
				if cursor >= len(universe) {
					cursor = r.Intn(len(universe))
				}
			}
			switch r.Intn(6) {
			case 0:
				v = nil
			case 1:
				v = []byte{}
			default:
				v = gen.Payload(r, 120)
			}
		}
		retry = nil
		fault := ""
		if r.Float64() < faultRate {
			fault = gen.Pick(r, "data", "index")
		}
		if fold && !retrying && r.Intn(3) == 0 {
			k = asciiUpper(k) // a different spelling of the same key
		}
		c.HashAdd(k, v, v == nil, fault)
		wantOrder := len(accepted) > 0 && keyCmp.Compare(k, accepted[len(accepted)-1].k) <= 0
		plan.mu.Lock()
		plan.failData, plan.failIdx = fault == "data", fault == "index"
		plan.mu.Unlock()
		// half of the programs hand every key over in ONE reused buffer (callers may recycle their key buffer
		// as soon as WriteNext returns; the writer must keep copies)
		kArg := k
		if reuseKeyBuf {
			keyBuf = append(keyBuf[:0], k...)
			kArg = keyBuf
			if k == nil {
				kArg = nil
			}
		}
		err := w.WriteNext(kArg, v)
		plan.mu.Lock()
		plan.failData, plan.failIdx = false, false
		plan.mu.Unlock()
		trace = append(trace, fmt.Sprintf("WriteNext(%x,%s)fault=%s->%v", k, fw.Hex(v), fault, err != nil))
		if len(trace) > 60 {
			trace = trace[1:]
		}
		c.Obs("calls_compared", 1)
		switch {
		case wantOrder:
			ordRej++
			c.Obs("ordering_rejections", 1)
			if err == nil {
				c.Violate("sstable-writer/non-ascending-key-accepted", "%s: key %x accepted although last accepted key is %x\n%v", cfg, k, accepted[len(accepted)-1].k, trace)
				return
			}
		case fault != "":
			faults++
			if fault == "data" {
				c.Obs("injected_data_faults", 1)
			} else {
				c.Obs("injected_index_faults", 1)
				if v == nil {
					c.Obs("index_fault_on_nil_value", 1)
				}
			}
			if err == nil {
				c.Violate("sstable-writer/injected-fault-absorbed/"+fault, "%s: WriteNext returned nil although the %s append failed\n%v", cfg, fault, trace)
				return
			}
			retry = &kv{k, v}
		default:
			if err != nil {
				sig := "sstable-writer/valid-write-rejected"
				if retrying {
					sig = "sstable-writer/retry-after-failed-write-rejected"
				} else if len(accepted) > 0 || s > 0 {
					// was a failed write of a greater-or-equal key the cause?
					sig = "sstable-writer/valid-write-rejected-after-failed-write"
				}
				c.Violate(sig, "%s: WriteNext(%x) returned %v although the key is greater than the last accepted key (%s)\n%v", cfg, k, err, lastKeyHex(accepted), trace)
				return
			}
			if retrying {
				c.Obs("retries_after_fault", 1)
			}
			accepted = append(accepted, kv{append([]byte{}, k...), v})
		}
	}
	for i := range keyBuf[:cap(keyBuf)] {
		keyBuf[:cap(keyBuf)][i] = 0xEE // the caller recycles its buffer before Close
	}
	if err := w.Close(); err != nil {
		c.Violate("sstable-writer/close-error", "%s: Close: %v\n%v", cfg, err, trace)
		return
	}
	// read back
	ropts := []sstables.ReadOption{sstables.ReadBasePath(c.Dir), sstables.ReadWithKeyComparator(keyCmp)}
	if fold {
		// (an order that differs from the byte order needs the index loader that takes the comparator)
		ropts = append(ropts, sstables.ReadIndexLoader(&sstables.SkipListIndexLoader{KeyComparator: keyCmp, ReadBufferSize: 4096}))
	}
	rd, err := sstables.NewSSTableReader(ropts...)
	if err != nil {
		c.Violate("sstable-writer/table-unreadable", "%s: %v\n%v", cfg, err, trace)
		return
	}
	defer rd.Close()
	it, err := rd.Scan()
	if err != nil {
		c.Violate("sstable-writer/scan-error", "%v", err)
		return
	}
	got, err := drainSST(it, len(accepted)+3)
	if err != nil {
		c.Violate("sstable-writer/scan-iter-error", "%s: %v\n%v", cfg, err, trace)
		return
	}
	if d := sameKVs(got, accepted); d != "" {
		c.Violate("sstable-writer/content-mismatch", "%s: table content differs from the accepted writes: %s\n got: %s\nwant: %s\n%v", cfg, d, fmtKVs(got), fmtKVs(accepted), trace)
		return
	}
	for _, e := range accepted {
		v, err := rd.Get(e.k)
		if err != nil || !sameRec(v, e.v) {
			c.Violate("sstable-writer/get-mismatch", "%s: Get(%x)=(%s,%v) want %s", cfg, e.k, fw.Hex(v), err, fw.Hex(e.v))
			return
		}
	}
	// a second, index-driven view must agree as well
	if len(accepted) > 0 {
		it2, err := rd.ScanStartingAt(accepted[0].k)
		if err == nil {
			got2, err2 := drainSST(it2, len(accepted)+3)
			if err2 != nil || sameKVs(got2, accepted) != "" {
				c.Violate("sstable-writer/index-scan-mismatch", "%s: ScanStartingAt(first): %v %s", cfg, err2, sameKVs(got2, accepted))
				return
			}
		}
	}
	md := rd.MetaData()
	c.Obs("metadata_checked", 1)
	nils := uint64(0)
	for _, e := range accepted {
		if e.v == nil {
			nils++
		}
	}
	if md.NumRecords != uint64(len(accepted)) {
		c.Violate("sstable-writer/metadata/num-records", "%s: NumRecords=%d want %d\n%v", cfg, md.NumRecords, len(accepted), trace)
	}
	if md.NullValues != nils {
		c.Violate("sstable-writer/metadata/null-values", "%s: NullValues=%d want %d\n%v", cfg, md.NullValues, nils, trace)
	}
	if len(accepted) > 0 {
		if !bytes.Equal(md.MinKey, accepted[0].k) {
			c.Violate("sstable-writer/metadata/min-key", "%s: MinKey=%x want %x (first accepted key)\n%v", cfg, md.MinKey, accepted[0].k, trace)
		}
		if !bytes.Equal(md.MaxKey, accepted[len(accepted)-1].k) {
			c.Violate("sstable-writer/metadata/max-key", "%s: MaxKey=%x want %x (last accepted key)\n%v", cfg, md.MaxKey, accepted[len(accepted)-1].k, trace)
		}
	} else if len(md.MinKey) != 0 || len(md.MaxKey) != 0 {
		c.Violate("sstable-writer/metadata/keys-of-empty-table", "%s: empty table reports MinKey=%x MaxKey=%x\n%v", cfg, md.MinKey, md.MaxKey, trace)
	}
	ds, _ := os.Stat(filepath.Join(c.Dir, sstables.DataFileName))
	is, _ := os.Stat(filepath.Join(c.Dir, sstables.IndexFileName))
	if ds != nil && md.DataBytes != uint64(ds.Size()) {
		c.Violate("sstable-writer/metadata/data-bytes", "%s: DataBytes=%d but data file has %d bytes\n%v", cfg, md.DataBytes, ds.Size(), trace)
	}
	if is != nil && md.IndexBytes != uint64(is.Size()) {
		c.Violate("sstable-writer/metadata/index-bytes", "%s: IndexBytes=%d but index file has %d bytes\n%v", cfg, md.IndexBytes, is.Size(), trace)
	}
	if md.TotalBytes != md.DataBytes+md.IndexBytes {
		c.Violate("sstable-writer/metadata/total-bytes", "%s: TotalBytes=%d want %d", cfg, md.TotalBytes, md.DataBytes+md.IndexBytes)
	}
	if ordRej >= 1 && faults >= 1 && len(accepted) >= 2 {
		c.Nontrivial()
	}
	if c.Idx%300 == 0 {
		c.Sample(map[string]any{"config": cfg, "calls": trace[:min(len(trace), 8)], "accepted": len(accepted), "ordering_rejections": ordRej, "injected_faults": faults})
	}
}

func lastKeyHex(a []kv) string {
	if len(a) == 0 {
		return "<none accepted yet>"
	}
	return fmt.Sprintf("%x", a[len(a)-1].k)
}
