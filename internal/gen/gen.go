// Package gen holds the seeded generators shared by the monitors. Everything is a pure
// function of the *rand.Rand handed in, so a case is reproducible from (property, seed, index).
package gen

import (
	"bytes"
	"math/rand"
	"sort"
)

var Marker = []byte{0x91, 0x8d, 0x4c}

// Pick returns one of the arguments.
func Pick[T any](r *rand.Rand, xs ...T) T { return xs[r.Intn(len(xs))] }

func Bytes(r *rand.Rand, n int) []byte {
	b := make([]byte, n)
	r.Read(b)
	return b
}

// Hostile returns n bytes drawn from a small alphabet dominated by the record marker bytes,
// varint continuation patterns and 0x00/0x01/0xff.
func Hostile(r *rand.Rand, n int) []byte {
	alpha := []byte{0x91, 0x8d, 0x4c, 0x91, 0x8d, 0x4c, 0x00, 0x01, 0xff, 0x80, 0x7f, 0x10}
	b := make([]byte, n)
	for i := range b {
		b[i] = alpha[r.Intn(len(alpha))]
	}
	return b
}

// Compressible returns n bytes of low entropy text.
func Compressible(r *rand.Rand, n int) []byte {
	words := []string{"alpha ", "beta ", "gamma ", "0000", "sstable ", "x"}
	var bb bytes.Buffer
	for bb.Len() < n {
		bb.WriteString(words[r.Intn(len(words))])
	}
	return bb.Bytes()[:n]
}

// Payload draws a record/value payload from the hostile families (never nil).
func Payload(r *rand.Rand, maxLen int) []byte {
	n := 0
	switch r.Intn(10) {
	case 0:
		n = 0
	case 1, 2, 3:
		n = 1 + r.Intn(8)
	case 4, 5, 6:
		n = 1 + r.Intn(64)
	default:
		if maxLen > 0 {
			n = r.Intn(maxLen + 1)
		}
	}
	if n > maxLen {
		n = maxLen
	}
	var b []byte
	switch r.Intn(6) {
	case 0:
		b = Bytes(r, n)
	case 1:
		b = Hostile(r, n)
	case 2:
		b = Compressible(r, n)
	case 3: // ends with a marker prefix
		b = Bytes(r, n)
		suf := [][]byte{{0x91}, {0x91, 0x8d}, {0x91, 0x8d, 0x4c}, {0x91, 0x91}, {0x91, 0x91, 0x8d}}[r.Intn(5)]
		if len(b) >= len(suf) {
			copy(b[len(b)-len(suf):], suf)
		}
	case 4: // starts with zero bytes / marker
		b = Bytes(r, n)
		pre := [][]byte{{0x00}, {0x00, 0x00}, {0x91, 0x8d, 0x4c}, {0x91, 0x8d, 0x4c, 0x00, 0x01, 0x00}, {0x01}}[r.Intn(5)]
		copy(b, pre)
	default: // marker + header-looking tail in the middle
		b = Compressible(r, n)
		if n > 8 {
			p := r.Intn(n - 7)
			copy(b[p:], []byte{0x91, 0x8d, 0x4c, 0x00, 0x03, 0x00})
		}
	}
	if b == nil {
		b = []byte{}
	}
	return b
}

// SizeAround returns a size at a boundary b with offset -2..+2 (never negative).
func SizeAround(r *rand.Rand, b int) int {
	n := b + r.Intn(5) - 2
	if n < 0 {
		n = 0
	}
	return n
}

// AscendingKeys returns n distinct keys in strictly ascending byte order, drawn from one family.
// Families: 0 fixed-width decimal, 1 random bytes, 2 long shared prefix, 3 marker-laden, 4 short (incl. empty key),
// 5 fixed width exactly 4 bytes, 6 fixed width exactly 20 bytes.
func AscendingKeys(r *rand.Rand, n int, family int) [][]byte {
	set := map[string]bool{}
	var out [][]byte
	tries := 0
	for len(out) < n && tries < n*50+100 {
		tries++
		var k []byte
		switch family {
		case 0:
			k = []byte(padInt(r.Intn(n*4+10), 6))
		case 1:
			k = Bytes(r, 1+r.Intn(24))
		case 2:
			k = append(bytes.Repeat([]byte("prefix/"), 6), Bytes(r, 1+r.Intn(6))...)
		case 3:
			k = Hostile(r, 1+r.Intn(12))
		case 4:
			k = Hostile(r, r.Intn(3))
		case 5:
			k = Bytes(r, 4)
		case 6:
			k = Bytes(r, 20)
		default:
			k = Bytes(r, 1+r.Intn(200))
		}
		if set[string(k)] {
			continue
		}
		set[string(k)] = true
		out = append(out, k)
	}
	sort.Slice(out, func(i, j int) bool { return bytes.Compare(out[i], out[j]) < 0 })
	return out
}

func padInt(v, w int) string {
	s := []byte{}
	for i := 0; i < w; i++ {
		s = append([]byte{byte('0' + v%10)}, s...)
		v /= 10
	}
	return string(s)
}

// Neighbours returns probe keys around k: predecessor-ish, successor-ish, proper prefix, extension.
func Neighbours(k []byte) [][]byte {
	var out [][]byte
	if len(k) > 0 {
		out = append(out, append([]byte{}, k[:len(k)-1]...)) // proper prefix
		p := append([]byte{}, k...)
		if p[len(p)-1] > 0 {
			p[len(p)-1]--
			out = append(out, append(p, 0xff))
		}
		s := append([]byte{}, k...)
		if s[len(s)-1] < 0xff {
			s[len(s)-1]++
			out = append(out, s)
		}
	}
	out = append(out, append(append([]byte{}, k...), 0x00))
	return out
}

// Perms calls f with every permutation of 0..n-1 (Heap's algorithm), f must not keep the slice.
func Perms(n int, f func([]int)) {
	a := make([]int, n)
	for i := range a {
		a[i] = i
	}
	var rec func(k int)
	rec = func(k int) {
		if k == 1 {
			f(a)
			return
		}
		rec(k - 1)
		for i := 0; i < k-1; i++ {
			if k%2 == 0 {
				a[i], a[k-1] = a[k-1], a[i]
			} else {
				a[0], a[k-1] = a[k-1], a[0]
			}
			rec(k - 1)
		}
	}
	if n > 0 {
		rec(n)
	}
}
