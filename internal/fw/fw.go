// Package fw is the child-side case framework: a property is a deterministic, seed-indexed
// list of cases; each case runs the real library under a monitor and reports violations,
// observation counters and a distinctness hash. The driver (cmd/vdriver) fans cases out to
// child processes and aggregates.
package fw

import (
	"bytes"
	"crypto/sha256"
	"encoding/hex"
	"encoding/json"
	"fmt"
	"hash/fnv"
	"math/rand"
	"os"
	"os/exec"
	"path/filepath"
	"runtime/debug"
	"strings"
	"sync"
)

type Violation struct {
	Sig    string `json:"sig"`
	Detail string `json:"detail"`
}

// CaseResult is one line of the child's output stream.
type CaseResult struct {
	T            string           `json:"t"` // "start" | "res"
	Idx          int              `json:"i"`
	Hash         string           `json:"h,omitempty"`
	Nontrivial   bool             `json:"nt,omitempty"`
	Viol         []Violation      `json:"v,omitempty"`
	Obs          map[string]int64 `json:"o,omitempty"`
	Sample       any              `json:"s,omitempty"`
	Inconclusive string           `json:"inc,omitempty"`
	// Units lets one case stand for many evaluations (e.g. one table x many damaged copies).
	Units int64 `json:"u,omitempty"`
	// DistinctNT: number of distinct non-trivial units inside this case (defaults to 1 if Nontrivial).
	DistinctNT int64 `json:"dnt,omitempty"`
}

type Case struct {
	Prop string
	Seed int64
	Idx  int
	Tier string
	R    *rand.Rand
	Dir  string // scratch dir on /dev/shm (removed after the case)
	Root string // plainly named parent of Dir (the same as Dir unless the case works below a hostile name)

	mu       sync.Mutex
	res      *CaseResult
	hasher   []byte
	diskDir  string
	diskRoot string
}

func (c *Case) Thorough() bool { return c.Tier == "thorough" }

// Violate records a violation. sig identifies the root-cause class (never contains seeds,
// paths or sizes); detail is free text for the replay file.
func (c *Case) Violate(sig string, format string, args ...any) {
	c.mu.Lock()
	defer c.mu.Unlock()
	d := fmt.Sprintf(format, args...)
	if len(d) > 1500 {
		d = d[:1500] + "...(cut)"
	}
	for _, v := range c.res.Viol {
		if v.Sig == sig {
			return // one per signature per case is enough
		}
	}
	c.res.Viol = append(c.res.Viol, Violation{Sig: sig, Detail: d})
}

func (c *Case) Violated() bool {
	c.mu.Lock()
	defer c.mu.Unlock()
	return len(c.res.Viol) > 0
}

func (c *Case) Obs(name string, n int64) {
	c.mu.Lock()
	defer c.mu.Unlock()
	if c.res.Obs == nil {
		c.res.Obs = map[string]int64{}
	}
	c.res.Obs[name] += n
}

func (c *Case) ObsMax(name string, n int64) {
	c.mu.Lock()
	defer c.mu.Unlock()
	if c.res.Obs == nil {
		c.res.Obs = map[string]int64{}
	}
	if n > c.res.Obs[name] {
		c.res.Obs[name] = n
	}
}

func (c *Case) GetObs(name string) int64 {
	c.mu.Lock()
	defer c.mu.Unlock()
	return c.res.Obs[name]
}

// HashAdd feeds the distinctness hash with the case's actual input.
func (c *Case) HashAdd(parts ...any) {
	c.mu.Lock()
	defer c.mu.Unlock()
	h := sha256.New()
	h.Write(c.hasher)
	for _, p := range parts {
		switch v := p.(type) {
		case []byte:
			fmt.Fprintf(h, "b%d:", len(v))
			h.Write(v)
		case string:
			fmt.Fprintf(h, "s%d:%s", len(v), v)
		default:
			fmt.Fprintf(h, "%v|", v)
		}
	}
	c.hasher = h.Sum(nil)
}

func (c *Case) Nontrivial() { c.mu.Lock(); c.res.Nontrivial = true; c.mu.Unlock() }
func (c *Case) SetUnits(n, dnt int64) {
	c.mu.Lock()
	c.res.Units = n
	c.res.DistinctNT = dnt
	c.mu.Unlock()
}
func (c *Case) Inconclusive(s string) { c.mu.Lock(); c.res.Inconclusive = s; c.mu.Unlock() }
func (c *Case) Sample(v any)          { c.mu.Lock(); c.res.Sample = v; c.mu.Unlock() }
func (c *Case) IsInconclusive() bool {
	c.mu.Lock()
	defer c.mu.Unlock()
	return c.res.Inconclusive != ""
}

// DiskDir returns a scratch directory on a real file system (for O_DIRECT); removed after the case.
func (c *Case) DiskDir() string {
	c.mu.Lock()
	defer c.mu.Unlock()
	if c.diskDir == "" {
		base := os.Getenv("VERIF_DISK_SCRATCH")
		if base == "" {
			base = os.TempDir()
		}
		d, err := os.MkdirTemp(base, "vcase-")
		if err != nil {
			panic(err)
		}
		c.diskDir = d
		c.diskRoot = d
		if c.Idx%3 == 1 {
			hostile := filepath.Join(d, hostileDirName(c.Idx))
			if os.Mkdir(hostile, 0755) == nil {
				c.diskDir = hostile
			}
		}
	}
	return c.diskDir
}

type Meta struct {
	N           int              `json:"n"`
	Level       string           `json:"level"`
	Rule        string           `json:"rule"`
	MinObs      map[string]int64 `json:"min_obs,omitempty"`
	MinNT       int64            `json:"min_nt"`
	Assumptions []string         `json:"assumptions,omitempty"`
	Exhaustive  bool             `json:"exhaustive,omitempty"`
	// CaseTimeoutS: watchdog for a single case (driver side, wall clock; expiry = inconclusive).
	CaseTimeoutS int `json:"case_timeout_s"`
	// Chunk: how many cases one child invocation handles.
	Chunk int `json:"chunk"`
	// Workers: max parallel children (0 = number of CPUs).
	Workers int `json:"workers,omitempty"`
}

type Prop struct {
	ID   string
	Meta func(tier string) Meta
	Run  func(c *Case)
}

var registry = map[string]*Prop{}

func Register(p *Prop)       { registry[p.ID] = p }
func Lookup(id string) *Prop { return registry[id] }
func IDs() []string {
	var s []string
	for k := range registry {
		s = append(s, k)
	}
	return s
}

func CaseSeed(prop string, seed int64, idx int) int64 {
	h := fnv.New64a()
	fmt.Fprintf(h, "%s/%d/%d", prop, seed, idx)
	return int64(h.Sum64() & 0x7fffffffffffffff)
}

func scratchBase() string {
	if b := os.Getenv("VERIF_SCRATCH"); b != "" {
		return b
	}
	if st, err := os.Stat("/dev/shm"); err == nil && st.IsDir() {
		return "/dev/shm"
	}
	return os.TempDir()
}

// hostileDirName: names with pattern / shell / printf characters, and names that start like the library's own
// sub-directories (a database, table or log may live in a directory called anything)
func hostileDirName(idx int) string {
	switch (idx / 3) % 4 {
	case 1:
		return "sstable_data [x]"
	case 2:
		return "sstable_compaction_cache"
	case 3:
		return "wal"
	}
	return "d [a-c]*?{1,2}%d é"
}

// RunCase executes one case with panic capture and returns its result.
func RunCase(p *Prop, seed int64, tier string, idx int) *CaseResult {
	res := &CaseResult{T: "res", Idx: idx}
	dir, err := os.MkdirTemp(scratchBase(), "vcase-"+p.ID+"-")
	if err != nil {
		res.Inconclusive = "mkdtemp: " + err.Error()
		return res
	}
	caseDir := dir
	if idx%3 == 1 {
		// every third case works below a directory whose name means something to pattern matchers, shells and printf:
		// nothing in the library may depend on how its directories are called
		hostile := filepath.Join(dir, hostileDirName(idx))
		if os.Mkdir(hostile, 0755) == nil {
			caseDir = hostile
			if (idx/12)%2 == 1 {
				// ... and is reached through a symbolic link
				link := filepath.Join(dir, "link to the case directory")
				if os.Symlink(hostile, link) == nil {
					caseDir = link
				}
			}
		}
	}
	c := &Case{Prop: p.ID, Seed: seed, Idx: idx, Tier: tier, Dir: caseDir, Root: dir, res: res,
		R: rand.New(rand.NewSource(CaseSeed(p.ID, seed, idx)))}
	func() {
		defer func() {
			if r := recover(); r != nil {
				st := string(debug.Stack())
				c.Violate("panic/"+PanicSite(st), "panic: %v\n%s", r, cut(st, 1200))
			}
		}()
		p.Run(c)
	}()
	_ = os.RemoveAll(dir)
	if c.diskRoot != "" {
		_ = os.RemoveAll(c.diskRoot)
	}
	if c.hasher != nil {
		res.Hash = hex.EncodeToString(c.hasher[:8])
	} else {
		res.Hash = fmt.Sprintf("idx%d", idx)
	}
	return res
}

func cut(s string, n int) string {
	if len(s) > n {
		return s[:n]
	}
	return s
}

// PanicSite names the innermost go-sstables function on a panic stack (stable across seeds).
func PanicSite(stack string) string {
	for _, ln := range strings.Split(stack, "\n") {
		ln = strings.TrimSpace(ln)
		if i := strings.Index(ln, "github.com/thomasjungblut/go-sstables/"); i >= 0 && !strings.HasPrefix(ln, "/") {
			f := ln[i+len("github.com/thomasjungblut/go-sstables/"):]
			if j := strings.Index(f, "("); j > 0 && !strings.Contains(f[:j], "[") {
				// strip argument list
				k := strings.LastIndex(f, "(")
				if k > 0 {
					f = f[:k]
				}
			}
			f = strings.NewReplacer("[...]", "", "(*", "", ")", "").Replace(f)
			return f
		}
	}
	return "harness"
}

func WriteJSON(path string, v any) error {
	b, err := json.MarshalIndent(v, "", " ")
	if err != nil {
		return err
	}
	if err := os.MkdirAll(filepath.Dir(path), 0755); err != nil {
		return err
	}
	return os.WriteFile(path, b, 0644)
}

// Hex renders bytes for samples (short).
func Hex(b []byte) string {
	if b == nil {
		return "nil"
	}
	if len(b) > 24 {
		return hex.EncodeToString(b[:24]) + fmt.Sprintf("..(%d)", len(b))
	}
	return hex.EncodeToString(b)
}

var subs = map[string]func(args []string) int{}

// RegisterSub registers a raw worker sub-command of vchild (traced sessions, recovery runs, race workloads).
func RegisterSub(name string, f func(args []string) int) { subs[name] = f }
func LookupSub(name string) func(args []string) int      { return subs[name] }

// Self returns the path of the running child binary and of its -race sibling (if built).
func Self() string { p, _ := os.Executable(); return p }
func SelfRace() string {
	return os.Getenv("VERIF_CHILD_RACE")
}

// SubResult is what a worker sub-process left behind.
type SubResult struct {
	Stdout   []byte
	Stderr   string
	Exit     int
	TimedOut bool
	Err      error
}

// RunSub runs the current child binary (or bin, if given) with a sub-command under a wall-clock
// watchdog. Output goes to files (pipes lose goroutine dumps). A timeout is reported, never judged.
func RunSub(bin string, timeoutS int, env []string, dir string, args ...string) SubResult {
	if bin == "" {
		bin = Self()
	}
	of, _ := os.CreateTemp(dir, "sub-out-*")
	ef, _ := os.CreateTemp(dir, "sub-err-*")
	defer os.Remove(of.Name())
	defer os.Remove(ef.Name())
	full := append([]string{"-s", "QUIT", "-k", "5", fmt.Sprint(timeoutS), bin}, args...)
	cmd := exec.Command("timeout", full...)
	cmd.Stdout = of
	cmd.Stderr = ef
	cmd.Env = append(os.Environ(), env...)
	err := cmd.Run()
	of.Close()
	ef.Close()
	res := SubResult{Err: err}
	res.Stdout, _ = os.ReadFile(of.Name())
	eb, _ := os.ReadFile(ef.Name())
	if ee, ok := err.(*exec.ExitError); ok && (ee.ExitCode() == 124 || ee.ExitCode() == 137) && len(eb) < 2<<20 {
		// watchdog: keep the whole goroutine dump for ClassifyHang
		res.Stderr = string(eb)
		res.Exit = ee.ExitCode()
		res.TimedOut = true
		return res
	}
	if len(eb) > 8000 {
		if i := bytes.Index(eb, []byte("panic: ")); i >= 0 && len(eb)-i > 8000 {
			eb = eb[i : i+8000]
		} else if i >= 0 {
			eb = eb[i:]
		} else {
			eb = eb[len(eb)-8000:]
		}
	}
	res.Stderr = string(eb)
	if ee, ok := err.(*exec.ExitError); ok {
		res.Exit = ee.ExitCode()
		if res.Exit == 124 || res.Exit == 137 {
			res.TimedOut = true
		}
	} else if err != nil {
		res.Exit = -1
	}
	return res
}

// ClassifyHang inspects the goroutine dump a Go process prints on SIGQUIT (what the watchdogs send). It reports a
// deadlock only on a state-based criterion, never on elapsed time alone: some goroutine that is inside a go-sstables
// call made by the harness (both kinds of frames on its stack) has been blocked in a synchronisation primitive for at
// least a minute, and NO goroutine with a go-sstables frame is running, runnable, in a system call or sleeping - i.e.
// nothing in the library can make progress any more. Anything else stays inconclusive.
func ClassifyHang(dump string) (sig string, deadlock bool) {
	if !strings.Contains(dump, "goroutine ") {
		return "", false
	}
	blocks := strings.Split(dump, "\n\n")
	blockedStates := []string{"semacquire", "sync.Mutex.Lock", "sync.RWMutex.Lock", "sync.RWMutex.RLock", "chan send", "chan receive", "select", "sync.WaitGroup.Wait", "sync.Cond.Wait"}
	stuckClient := ""
	for _, b := range blocks {
		b = strings.TrimSpace(b)
		if !strings.HasPrefix(b, "goroutine ") {
			continue
		}
		if !strings.Contains(b, "github.com/thomasjungblut/go-sstables/") {
			continue
		}
		hdr := b
		if i := strings.Index(b, "\n"); i > 0 {
			hdr = b[:i]
		}
		st := ""
		if i := strings.Index(hdr, "["); i >= 0 {
			if j := strings.Index(hdr, "]"); j > i {
				st = hdr[i+1 : j]
			}
		}
		isBlocked := false
		for _, s := range blockedStates {
			if strings.HasPrefix(st, s) {
				isBlocked = true
			}
		}
		if !isBlocked {
			return "", false // something in the library is still running / in a syscall / sleeping
		}
		if strings.Contains(b, "verif/internal/props") && strings.Contains(st, "minutes") && stuckClient == "" {
			stuckClient = PanicSite(b)
		}
	}
	if stuckClient == "" {
		return "", false
	}
	return stuckClient, true
}
