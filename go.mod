module verif

go 1.25

require (
	github.com/anishathalye/porcupine v1.3.0
	github.com/thomasjungblut/go-sstables v0.0.0
)

replace github.com/thomasjungblut/go-sstables => /repo
