#!/bin/bash
# Run once after a fresh restore (offline): warms the Go build cache for all three binaries.
set -e
cd "$(dirname "$(readlink -f "$0")")"
export GOFLAGS=-mod=mod GOPROXY=off GOTOOLCHAIN=auto
unset GOSUMDB GOWORK 2>/dev/null || true
mkdir -p .work evidence replays
go build -o .work/setup-vdriver ./cmd/vdriver
go build -tags verif -o .work/setup-vchild ./cmd/vchild
go build -tags verif -race -o .work/setup-vchild-race ./cmd/vchild
rm -f .work/setup-*
echo setup ok
